(* Pure list facts behind C05 over whole runs (Proofs/WorldFound.v): the notifications one recording listener receives
   about one (source address, service) read off the observable trace, and what a batch of notifications does to them. *)
From Coq Require Import Lia.
From PS Require Import Lib.Base Generated.Consts Model.SdTypes Model.Config Model.Session
  Model.StackTypes Model.Stack Proofs.KeyEquiv.

(* the identity of a stored service = the identity the library's dict uses *)
Definition fkey (s k : service) : bool := service_eqb s k.

(* the latest notification of listener id about (a, k) is "offered" *)
Fixpoint up_l (id : N) (a : addr) (k : service) (o : list (N * event)) : bool :=
  match o with
  | [] => false
  | (_, EOffered l s a') :: r => if (l =? id) && (a' =? a) && fkey s k then true else up_l id a k r
  | (_, EStopped l s a') :: r => if (l =? id) && (a' =? a) && fkey s k then false else up_l id a k r
  | _ :: r => up_l id a k r
  end.
(* the notifications of listener id alternate per (address, service): "offered" only when the latest one is not
   "offered", "stopped" only when it is *)
Fixpoint altl (id : N) (o : list (N * event)) : bool :=
  match o with
  | [] => true
  | (_, EOffered l s a) :: r => (if l =? id then negb (up_l id a s r) else true) && altl id r
  | (_, EStopped l s a) :: r => (if l =? id then up_l id a s r else true) && altl id r
  | _ :: r => altl id r
  end.

(* the client-listener part of the trace *)
Definition cnlog (o : list (N * event)) : list (N * event) :=
  filter (fun p => match snd p with EOffered _ _ _ | EStopped _ _ _ => true | _ => false end) o.
Lemma cnlog_cons t e o : cnlog ((t, e) :: o) = match e with EOffered _ _ _ | EStopped _ _ _ => (t, e) :: cnlog o | _ => cnlog o end.
Proof. destruct e; reflexivity. Qed.
Lemma up_l_cnlog id a k o : up_l id a k (cnlog o) = up_l id a k o.
Proof. induction o as [|[t e] o IH]; [reflexivity|]. rewrite cnlog_cons. destruct e; cbn [up_l]; rewrite ?IH; reflexivity. Qed.
Lemma altl_cnlog id o : altl id (cnlog o) = altl id o.
Proof. induction o as [|[t e] o IH]; [reflexivity|]. rewrite cnlog_cons. destruct e; cbn [altl]; rewrite ?IH, ?up_l_cnlog; reflexivity. Qed.

Lemma fkey_refl s : fkey s s = true. Proof. apply service_eqb_refl. Qed.
Lemma fkey_cong s s' k : fkey s s' = true -> fkey s k = fkey s' k.
Proof.
  unfold fkey. intros E. destruct (service_eqb s k) eqn:E1, (service_eqb s' k) eqn:E2; try reflexivity.
  - rewrite (service_eqb_trans s' s k) in E2; [discriminate|rewrite service_eqb_sym; exact E|exact E1].
  - rewrite (service_eqb_trans s s' k E E2) in E1. discriminate.
Qed.
Lemma fkey_sym s k : fkey s k = fkey k s. Proof. apply service_eqb_sym. Qed.
Lemma fkey_cong_r s k k' : fkey k k' = true -> fkey s k = fkey s k'.
Proof. intros E. rewrite (fkey_sym s k), (fkey_sym s k'). apply fkey_cong, E. Qed.
Lemma up_l_cong id a k k' o : fkey k k' = true -> up_l id a k o = up_l id a k' o.
Proof.
  intros E. induction o as [|[t e] o IH]; [reflexivity|]. destruct e; cbn [up_l]; try exact IH.
  - rewrite (fkey_cong_r s k k' E), IH. reflexivity.
  - rewrite (fkey_cong_r s k k' E), IH. reflexivity.
Qed.

(* ---- batch A: one (service, address), several listeners (notify_service) ---- *)
Definition evA (off : bool) (t : N) (s : service) (a : addr) (id : N) : N * event :=
  (t, if off then EOffered id s a else EStopped id s a).
Definition memid (id : N) (ids : list N) : bool := existsb (N.eqb id) ids.
Lemma up_l_evA off t s a ids id a' k o :
  up_l id a' k (map (evA off t s a) ids ++ o) = if memid id ids && (a =? a') && fkey s k then off else up_l id a' k o.
Proof.
  induction ids as [|i ids IH]; [reflexivity|]. cbn [map app memid existsb]. unfold evA at 1. rewrite (N.eqb_sym id i).
  destruct off; cbn [up_l]; rewrite IH; fold (memid id ids);
    destruct (i =? id), (memid id ids), (a =? a'), (fkey s k); reflexivity.
Qed.
Lemma altl_evA off t s a ids id o : (count_occ N.eq_dec ids id <= 1)%nat ->
  altl id (map (evA off t s a) ids ++ o) = (if memid id ids then Bool.eqb (up_l id a s o) (negb off) else true) && altl id o.
Proof.
  induction ids as [|i ids IH]; intros Hc; [reflexivity|]. cbn [map app memid existsb]. unfold evA at 1. rewrite (N.eqb_sym id i).
  cbn [count_occ] in Hc. destruct (N.eq_dec i id) as [->|Hne].
  - assert (Hz : count_occ N.eq_dec ids id = 0%nat) by lia. rewrite N.eqb_refl.
    assert (Hm : memid id ids = false).
    { apply Bool.not_true_is_false. intros Hm. apply existsb_exists in Hm. destruct Hm as (x & Hin & Hx). apply N.eqb_eq in Hx. subst x.
      apply (count_occ_not_In N.eq_dec) in Hz. contradiction. }
    cbn [orb].
    destruct off; cbn [altl]; rewrite N.eqb_refl, up_l_evA, Hm, IH by lia; rewrite Hm; cbn [andb negb];
      destruct (up_l id a s o); reflexivity.
  - rewrite (proj2 (N.eqb_neq i id) Hne). cbn [orb]. change (existsb (N.eqb id) ids) with (memid id ids).
    destruct off; cbn [altl]; rewrite (proj2 (N.eqb_neq i id) Hne), IH by lia; reflexivity.
Qed.

(* ---- batch B: one listener, one notification (found_iter, by induction from the right) ---- *)
Lemma up_l_one off t id s a id' a' k o :
  up_l id' a' k (evA off t s a id :: o) = if (id =? id') && (a =? a') && fkey s k then off else up_l id' a' k o.
Proof. unfold evA. destruct off; cbn [up_l]; destruct ((id =? id') && (a =? a') && fkey s k); reflexivity. Qed.
Lemma altl_one off t id s a id' o :
  altl id' (evA off t s a id :: o) = (if id =? id' then Bool.eqb (up_l id' a s o) (negb off) else true) && altl id' o.
Proof. unfold evA. destruct off; cbn [altl]; destruct (id =? id'); cbn [negb]; try reflexivity; destruct (up_l id' a s o); reflexivity. Qed.

(* ---- the ghost taint ---- *)
Definition tainted (id : N) (l : list (N * gev)) : bool :=
  existsb (fun p => match snd p with GMulti i => i =? id | _ => false end) l.
Definition mlog (l : list (N * gev)) : list (N * gev) :=
  filter (fun p => match snd p with GMulti _ => true | _ => false end) l.
Lemma tainted_mlog id l : tainted id (mlog l) = tainted id l.
Proof.
  unfold tainted, mlog. induction l as [|[t g] l IH]; [reflexivity|]. cbn [filter snd]. destruct g; cbn [existsb snd]; rewrite ?IH; reflexivity.
Qed.

(* ---- registrations ---- *)
Definition rec_ids (ls : list listener) : list N := flat_map (fun l => match l with LRec i => [i] | LAuto _ => [] end) ls.
Lemma count_rec_ids id ls : count_occ N.eq_dec (rec_ids ls) id = occ (LRec id) ls.
Proof.
  unfold occ. induction ls as [|l ls IH]; [reflexivity|]. destruct l as [i|g]; cbn [rec_ids flat_map app filter listener_eqb].
  - change (flat_map _ ls) with (rec_ids ls). cbn [count_occ]. rewrite (N.eqb_sym id i). destruct (N.eq_dec i id) as [->|Hne].
    + rewrite N.eqb_refl. cbn [length]. rewrite IH. reflexivity.
    + rewrite (proj2 (N.eqb_neq i id) Hne). exact IH.
  - exact IH.
Qed.
Lemma memid_count id ids : memid id ids = negb (Nat.eqb (count_occ N.eq_dec ids id) 0).
Proof.
  induction ids as [|i ids IH]; [reflexivity|]. cbn [memid existsb count_occ]. fold (memid id ids). rewrite (N.eqb_sym id i).
  destruct (N.eq_dec i id) as [->|Hne]; [rewrite N.eqb_refl; reflexivity|]. rewrite (proj2 (N.eqb_neq i id) Hne). exact IH.
Qed.

(* ---- occurrences of a listener in a registration set ---- *)
Lemma occ_cons x l ls : occ x (l :: ls) = ((if listener_eqb x l then 1 else 0) + occ x ls)%nat.
Proof. unfold occ. cbn [filter]. destruct (listener_eqb x l); reflexivity. Qed.
Lemma occ_insert x l ls : occ x (insert_listener l ls) = (occ x ls + (if listener_eqb x l then 1 else 0))%nat.
Proof.
  induction ls as [|y r IH]; [cbn [insert_listener]; rewrite occ_cons; unfold occ; cbn; lia|].
  cbn [insert_listener]. destruct l as [a|g], y as [b|h]; try destruct (a <? b); rewrite ?occ_cons, ?IH; lia.
Qed.
Lemma occ_existsb x ls : existsb (listener_eqb x) ls = negb (Nat.eqb (occ x ls) 0).
Proof. induction ls as [|y r IH]; [reflexivity|]. cbn [existsb]. rewrite occ_cons, IH. destruct (listener_eqb x y); reflexivity. Qed.
Lemma occ_add x l ls : occ x (add_listener l ls) = (if listener_eqb x l && Nat.eqb (occ l ls) 0 then occ x ls + 1 else occ x ls)%nat.
Proof.
  unfold add_listener. rewrite occ_existsb. destruct (Nat.eqb (occ l ls) 0) eqn:E; cbn [negb].
  - rewrite occ_insert, andb_true_r. destruct (listener_eqb x l); lia.
  - rewrite andb_false_r. reflexivity.
Qed.
Lemma occ_remove x l : forall ls ls', remove_first listener_eqb l ls = Some ls' ->
  exists y, listener_eqb l y = true /\ occ x ls = (occ x ls' + (if listener_eqb x y then 1 else 0))%nat.
Proof.
  induction ls as [|y r IH]; intros ls' H; cbn [remove_first] in H; [discriminate|].
  destruct (listener_eqb l y) eqn:E.
  - injection H as <-. exists y. split; [exact E|]. rewrite occ_cons. lia.
  - destruct (remove_first listener_eqb l r) as [r'|] eqn:Er; [|discriminate]. injection H as <-.
    destruct (IH r' eq_refl) as (z & Hz & Ho). exists z. split; [exact Hz|]. rewrite !occ_cons, Ho. lia.
Qed.
Lemma occ_remove_none l : forall ls, remove_first listener_eqb l ls = None -> existsb (listener_eqb l) ls = false.
Proof.
  induction ls as [|y r IH]; intros H; [reflexivity|]. cbn [remove_first] in H. cbn [existsb]. destruct (listener_eqb l y); [discriminate|].
  destruct (remove_first listener_eqb l r); [discriminate|]. apply IH. reflexivity.
Qed.

(* ---- sums over the filter table ---- *)
Definition wget (f : service) (l : list (service * list listener)) : list listener :=
  match aget service_eqb f l with Some ls => ls | None => [] end.
Definition wsum (m : service -> bool) (x : listener) (l : list (service * list listener)) : nat :=
  list_sum (map (fun p => if m (fst p) then occ x (snd p) else 0%nat) l).
Lemma lsum_cons x l : list_sum (x :: l) = (x + list_sum l)%nat. Proof. reflexivity. Qed.
Lemma wsum_aset m x f v l : (forall f', service_eqb f f' = true -> m f' = m f) ->
  (wsum m x (aset service_eqb f v l) + (if m f then occ x (wget f l) else 0) = wsum m x l + (if m f then occ x v else 0))%nat.
Proof.
  intros Hm. unfold wsum, wget. induction l as [|[f' old] r IH]; cbn [aset aget map fst snd].
  - rewrite lsum_cons. change (occ x []) with 0%nat. change (list_sum []) with 0%nat. destruct (m f); lia.
  - destruct (service_eqb f f') eqn:E; cbn [map fst snd]; rewrite !lsum_cons.
    + rewrite (Hm f' E). destruct (m f); lia.
    + lia.
Qed.

(* ---- the stored offers as one list (found_iter walks address by address, entry by entry) ---- *)
Definition flat (st : store) : list (addr * key) := flat_map (fun p => map (fun q => (fst p, fst q)) (snd p)) st.
Definition keq (y x : addr * key) : bool := (fst y =? fst x) && key_eqb (snd y) (snd x).

Lemma fold_flat {W} (h : W -> addr -> key -> W) : forall (st : store) acc,
  fold_left (fun acc0 p => fold_left (fun acc2 q => h acc2 (fst p) (fst q)) (snd p) acc0) st acc
  = fold_left (fun acc0 x => h acc0 (fst x) (snd x)) (flat st) acc.
Proof.
  induction st as [|[a d] st IH]; intros acc; [reflexivity|]. cbn [fold_left flat flat_map fst snd]. rewrite fold_left_app.
  change (flat_map _ st) with (flat st). rewrite <- IH. f_equal.
  generalize acc. induction d as [|q d IHd]; intros acc0; [reflexivity|]. cbn [fold_left map fst snd]. apply IHd.
Qed.

Lemma amem_existsb {V} kk (d : list (key * V)) : amem key_eqb kk d = existsb (fun q => key_eqb kk (fst q)) d.
Proof. unfold amem. induction d as [|[k v] d IH]; [reflexivity|]. cbn [aget existsb fst]. destruct (key_eqb kk k); [reflexivity|exact IH]. Qed.

Lemma flat_amem a kk : forall st : store, NoDup (map fst st) ->
  existsb (fun x => (fst x =? a) && key_eqb kk (snd x)) (flat st) = amem key_eqb kk (inner a st).
Proof.
  induction st as [|[a0 d] st IH]; intros Hn; [reflexivity|]. cbn [flat flat_map fst snd]. change (flat_map _ st) with (flat st).
  rewrite existsb_app. cbn [map fst] in Hn. inversion Hn as [|? ? Hni Hn']; subst. unfold inner. cbn [aget].
  destruct (N.eqb_spec a a0) as [->|Hne].
  - match goal with |- _ || ?e = _ => assert (H2 : e = false) end.
    { apply Bool.not_true_is_false. intros H. apply existsb_exists in H. destruct H as (x & Hin & Hx). apply andb_true_iff in Hx. destruct Hx as [Hx _].
      apply N.eqb_eq in Hx. apply Hni. unfold flat in Hin. apply in_flat_map in Hin. destruct Hin as (p & Hp & Hq). apply in_map_iff in Hq.
      destruct Hq as (q & <- & _). cbn [fst] in Hx. subst a0. apply in_map. exact Hp. }
    rewrite H2, orb_false_r, amem_existsb. induction d as [|q d IHd]; [reflexivity|]. cbn [map existsb fst snd]. rewrite N.eqb_refl, IHd. reflexivity.
  - match goal with |- ?e || _ = _ => assert (H1 : e = false) end.
    { induction d as [|q d IHd]; [reflexivity|]. cbn [map existsb fst snd]. rewrite (proj2 (N.eqb_neq a0 a)) by (intros E; apply Hne; symmetry; exact E). exact IHd. }
    rewrite H1. cbn [orb]. apply IH, Hn'.
Qed.

Inductive distinct : list (addr * key) -> Prop :=
| d_nil : distinct []
| d_cons x l : (forall y, In y l -> keq x y = false) -> distinct l -> distinct (x :: l).
Lemma distinct_app l1 : forall l2, distinct l1 -> distinct l2 -> (forall y x, In y l1 -> In x l2 -> keq y x = false) -> distinct (l1 ++ l2).
Proof.
  induction l1 as [|z l1 IH]; intros l2 H1 H2 Hc; [exact H2|]. inversion H1 as [|? ? Hz H1']; subst. cbn [app]. constructor.
  - intros y Hy. apply in_app_iff in Hy. destruct Hy as [Hy|Hy]; [apply Hz, Hy|apply Hc; [left; reflexivity|exact Hy]].
  - apply IH; [exact H1'|exact H2|]. intros y x Hy Hx. apply Hc; [right; exact Hy|exact Hx].
Qed.
Lemma distinct_snoc_inv l x : distinct (l ++ [x]) -> distinct l /\ forall y, In y l -> keq y x = false.
Proof.
  induction l as [|z l IH]; intros H; [split; [constructor|intros y []]|]. cbn [app] in H. inversion H as [|? ? Hz H']; subst.
  destruct (IH H') as [D1 D2]. split.
  - constructor; [|exact D1]. intros y Hy. apply Hz. apply in_app_iff. left. exact Hy.
  - intros y [<-|Hy]; [apply Hz; apply in_app_iff; right; left; reflexivity|apply D2, Hy].
Qed.
Lemma distinct_inner a0 (d : list (key * option N)) : NoDupE d -> distinct (map (fun q => (a0, fst q)) d).
Proof.
  intros Hd. induction Hd as [|k v d Hne Hd IHd]; [constructor|]. cbn [map fst]. constructor; [|exact IHd].
  intros y Hy. apply in_map_iff in Hy. destruct Hy as (q & <- & Hq). unfold keq. cbn [fst snd]. rewrite N.eqb_refl. cbn [andb]. apply Hne, Hq.
Qed.
Lemma distinct_flat : forall st : store, NoDup (map fst st) -> (forall a, NoDupE (inner a st)) -> distinct (flat st).
Proof.
  induction st as [|[a0 d] st IH]; intros Hn Hk; [constructor|]. cbn [flat flat_map fst snd]. change (flat_map _ st) with (flat st).
  cbn [map fst] in Hn. inversion Hn as [|? ? Hni Hn']; subst. apply distinct_app.
  - pose proof (Hk a0) as Hd. unfold inner in Hd. cbn [aget] in Hd. rewrite N.eqb_refl in Hd. apply distinct_inner, Hd.
  - apply IH; [exact Hn'|]. intros a. pose proof (Hk a) as Hd. unfold inner in *. cbn [aget] in Hd.
    destruct (N.eqb_spec a a0) as [E0|Hne]; [|exact Hd]. rewrite E0.
    destruct (aget N.eqb a0 st) as [d'|] eqn:E; [|constructor]. exfalso. apply Hni.
    clear -E. induction st as [|[k0 v] l IHl]; [discriminate|]. cbn [aget] in E. cbn [map fst]. destruct (N.eqb_spec a0 k0) as [->|Hne]; [left; reflexivity|right; apply IHl; exact E].
  - intros y x Hy Hx. apply in_map_iff in Hy. destruct Hy as (q & <- & _). unfold keq. cbn [fst].
    destruct (N.eqb_spec a0 (fst x)) as [E|E]; [|reflexivity]. exfalso. apply Hni. rewrite E.
    unfold flat in Hx. apply in_flat_map in Hx. destruct Hx as (p & Hp & Hq). apply in_map_iff in Hq. destruct Hq as (q' & <- & _). cbn [fst]. apply in_map. exact Hp.
Qed.

(* the entries of the store that found_iter hands to its callback, seen from (a, k) *)
Definition instore (f : service -> bool) (a : addr) (k : service) (xs : list (addr * key)) : bool :=
  existsb (fun x => (fst x =? a) && match snd x with KService s => f s && fkey s k | KSub _ => false end) xs.
