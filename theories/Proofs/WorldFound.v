(* C05 over WHOLE RUNS of the full stack model, for every scenario and schedule: the notifications a recording discovery
   listener receives are a truthful, strictly alternating history of the stored offers it is registered for.
     f5_up : for every listener, source address and service (up to the identity the library's dict uses), the latest
             notification is "offered" exactly when an offer of that service from that address is stored AND the
             listener is registered for it (a filter that matches, or watch-all);
     f5_alt: "offered" is only ever reported when the latest notification is not "offered", "stopped" only when it is.
   Both for every listener that never was registered while it already had a registration (ghost event GMulti: the
   domain outside which finding F13 lives).  Kept by every callback, loop step and run. *)
From Coq Require Import Lia Permutation.
From PS Require Import Lib.Base Lib.Struct Generated.Consts Model.SdTypes Model.Config Model.Session Model.Someip Model.SdCodec
  Model.StackTypes Model.Stack Model.StackIO Proofs.AListFacts Proofs.EqFacts Proofs.KeyEquiv Proofs.WorldInv Proofs.WorldInv2
  Proofs.WorldSubs Proofs.FoundLog Proofs.Same5.
From PS Require Proofs.Lift5.

Definition stored (a : addr) (k : service) (w : world) : bool := amem key_eqb (KService k) (inner a (found w)).
(* the number of registrations of recording listener id that match service k *)
Definition nregm (id : N) (k : service) (w : world) : nat :=
  list_sum (map (fun p => if matches_service (fst p) k then occ (LRec id) (snd p) else 0%nat) (watched w))
  + occ (LRec id) (watch_all w).
Definition regm (id : N) (k : service) (w : world) : bool := negb (Nat.eqb (nregm id k w) 0).

Record F5 (w : world) : Prop := mkF5 {
  f5_addrs : NoDup (map fst (found w));
  f5_one : forall id, tainted id (glog w) = false -> (regs_of (LRec id) w <= 1)%nat;
  f5_up : forall id a k, tainted id (glog w) = false -> up_l id a k (out w) = stored a k w && regm id k w;
  f5_alt : forall id, tainted id (glog w) = false -> altl id (out w) = true }.

Lemma F5_fx w w' : fx w w' -> F5 w -> F5 w'.
Proof.
  intros [A B C D E] [H1 H2 H3 H4].
  assert (Ht : forall id, tainted id (glog w') = tainted id (glog w)) by (intros id; rewrite <- tainted_mlog, E, tainted_mlog; reflexivity).
  constructor.
  - rewrite A. exact H1.
  - intros id Hid. rewrite Ht in Hid. unfold regs_of. rewrite B, C. apply H2, Hid.
  - intros id a k Hid. rewrite Ht in Hid. rewrite <- up_l_cnlog, D, up_l_cnlog. unfold stored, regm, nregm. rewrite A, B, C. apply H3, Hid.
  - intros id Hid. rewrite Ht in Hid. rewrite <- altl_cnlog, D, altl_cnlog. apply H4, Hid.
Qed.

(* ------------------------------------------------------------------ who is notified about a service *)
Definition recips (s : service) (w : world) : list N :=
  flat_map (fun p => if matches_service (fst p) s then rec_ids (snd p) else []) (watched w) ++ rec_ids (watch_all w).
Lemma count_recips id s w : count_occ N.eq_dec (recips s w) id = nregm id s w.
Proof.
  unfold recips, nregm. rewrite count_occ_app, count_rec_ids. f_equal.
  induction (watched w) as [|p l IH]; [reflexivity|]. cbn [flat_map map]. rewrite lsum_cons, count_occ_app, IH.
  destruct (matches_service (fst p) s); [rewrite count_rec_ids; reflexivity|reflexivity].
Qed.
Lemma nregm_le id s w : (nregm id s w <= regs_of (LRec id) w)%nat.
Proof.
  unfold nregm, regs_of.
  assert (H : (list_sum (map (fun p => if matches_service (fst p) s then occ (LRec id) (snd p) else 0%nat) (watched w))
               <= list_sum (map (fun p => occ (LRec id) (snd p)) (watched w)))%nat).
  { induction (watched w) as [|p l IH]; [apply le_n|]. cbn [map]. rewrite !lsum_cons. destruct (matches_service (fst p) s); lia. }
  lia.
Qed.
Lemma memid_rev id l : memid id (rev l) = memid id l.
Proof. rewrite !memid_count. f_equal. f_equal. induction l as [|x l IH]; [reflexivity|]. cbn [rev]. rewrite count_occ_app, IH. cbn [count_occ]. destruct (N.eq_dec x id); lia. Qed.
Lemma count_rev id (l : list N) : count_occ N.eq_dec (rev l) id = count_occ N.eq_dec l id.
Proof. induction l as [|x l IH]; [reflexivity|]. cbn [rev]. rewrite count_occ_app, IH. cbn [count_occ]. destruct (N.eq_dec x id); lia. Qed.
Lemma memid_recips id s w : memid id (recips s w) = regm id s w.
Proof. rewrite memid_count, count_recips. reflexivity. Qed.

Lemma matches_service_cong f s k : service_eqb s k = true -> matches_service f s = matches_service f k.
Proof.
  unfold service_eqb, matches_service. intros H. repeat (apply andb_true_iff in H; destruct H as [H ?]).
  apply N.eqb_eq in H. repeat match goal with E : (_ =? _) = true |- _ => apply N.eqb_eq in E end.
  repeat match goal with E : _ s = _ k |- _ => rewrite E; clear E end. reflexivity.
Qed.
Lemma nregm_cong id s k w : service_eqb s k = true -> nregm id s w = nregm id k w.
Proof.
  intros E. unfold nregm. f_equal. induction (watched w) as [|p l IH]; [reflexivity|]. cbn [map]. rewrite !lsum_cons.
  rewrite (matches_service_cong (fst p) s k E), IH. reflexivity.
Qed.
Lemma regm_cong id s k w : fkey s k = true -> regm id s w = regm id k w.
Proof. intros E. unfold regm. rewrite (nregm_cong id s k w E). reflexivity. Qed.

(* everything but the client notifications *)
Record fq (w w' : world) : Prop := mkFq {
  fq_found : found w' = found w; fq_watched : watched w' = watched w; fq_all : watch_all w' = watch_all w;
  fq_ml : mlog (glog w') = mlog (glog w); fq_now : now w' = now w }.
Lemma fq_refl w : fq w w. Proof. constructor; reflexivity. Qed.
Lemma fq_trans a b c : fq a b -> fq b c -> fq a c.
Proof. intros [A1 A2 A3 A4 A5] [B1 B2 B3 B4 B5]. constructor; congruence. Qed.

Definition lst (off : bool) := if off then listener_offered else listener_stopped.
Lemma lst_one off l s a w :
  fq w (lst off l s a w) /\
  cnlog (out (lst off l s a w)) = match l with LRec id => [evA off (now w) s a id] | LAuto _ => [] end ++ cnlog (out w).
Proof.
  destruct l as [id|g].
  - destruct off; cbn [lst listener_offered listener_stopped]; (split; [constructor; reflexivity|]); cbn [emit out set_out]; rewrite cnlog_cons; reflexivity.
  - destruct off; cbn [lst listener_offered listener_stopped app]; destruct (for_service g s) as [g'|]; try (split; [apply fq_refl|reflexivity]).
    + unfold subscribe_eventgroup, subscribe_core, note_dup. destruct (requested _ _ _); destruct (sub_alive _); split; try (constructor; reflexivity); reflexivity.
    + unfold stop_subscribe_eventgroup. destruct (remove_first _ _ _); [|split; [apply fq_refl|reflexivity]].
      split; [constructor; reflexivity|reflexivity].
Qed.
Lemma lst_many off s a : forall ls w,
  let w' := fold_left (fun acc l => lst off l s a acc) ls w in
  fq w w' /\ cnlog (out w') = map (evA off (now w) s a) (rev (rec_ids ls)) ++ cnlog (out w).
Proof.
  induction ls as [|l ls IH]; intros w; cbn [fold_left]; cbv zeta; [split; [apply fq_refl|reflexivity]|].
  destruct (lst_one off l s a w) as [Q1 C1]. destruct (IH (lst off l s a w)) as [Q2 C2]. cbv zeta in Q2, C2.
  split; [eapply fq_trans; eauto|]. rewrite C2, C1, (fq_now _ _ Q1).
  destruct l as [id|g]; cbn [rec_ids flat_map app]; [|reflexivity].
  change (flat_map _ ls) with (rec_ids ls). cbn [rev]. rewrite map_app, <- app_assoc. reflexivity.
Qed.

Lemma notify_spec off s a w :
  let w' := notify_service (lst off) s a w in
  fq w w' /\ cnlog (out w') = map (evA off (now w) s a) (rev (recips s w)) ++ cnlog (out w).
Proof.
  unfold notify_service. cbv zeta.
  assert (H1 : forall l acc, let acc' := fold_left (fun acc0 p => if matches_service (fst p) s then fold_left (fun acc2 l0 => lst off l0 s a acc2) (snd p) acc0 else acc0) l acc in
             fq acc acc' /\ cnlog (out acc') = map (evA off (now acc) s a) (rev (flat_map (fun p => if matches_service (fst p) s then rec_ids (snd p) else []) l)) ++ cnlog (out acc)).
  { induction l as [|p l IH]; intros acc; cbn [fold_left]; cbv zeta; [split; [apply fq_refl|reflexivity]|].
    cbn [flat_map]. destruct (matches_service (fst p) s).
    - destruct (lst_many off s a (snd p) acc) as [Q1 C1]. cbv zeta in Q1, C1.
      destruct (IH (fold_left (fun acc2 l0 => lst off l0 s a acc2) (snd p) acc)) as [Q2 C2]. cbv zeta in Q2, C2.
      split; [eapply fq_trans; eauto|]. rewrite C2, C1, (fq_now _ _ Q1), rev_app_distr, map_app, <- app_assoc. reflexivity.
    - apply IH. }
  destruct (H1 (watched w) w) as [Q1 C1]. cbv zeta in Q1, C1.
  set (w1 := fold_left _ (watched w) w) in *.
  destruct (lst_many off s a (watch_all w1) w1) as [Q2 C2]. cbv zeta in Q2, C2.
  split; [eapply fq_trans; eauto|]. rewrite C2, C1, (fq_now _ _ Q1), (fq_all _ _ Q1). unfold recips. rewrite rev_app_distr, map_app, <- app_assoc. reflexivity.
Qed.

(* ------------------------------------------------------------------ the two ways the invariant moves *)
Lemma F5_frame w w' : watched w' = watched w -> watch_all w' = watch_all w -> mlog (glog w') = mlog (glog w) ->
  cnlog (out w') = cnlog (out w) -> NoDup (map fst (found w')) ->
  (forall a k, stored a k w' = stored a k w) -> F5 w -> F5 w'.
Proof.
  intros B C E D Hn Hst [H1 H2 H3 H4].
  assert (Ht : forall id, tainted id (glog w') = tainted id (glog w)) by (intros id; rewrite <- tainted_mlog, E, tainted_mlog; reflexivity).
  constructor; [exact Hn| | |].
  - intros id Hid. rewrite Ht in Hid. unfold regs_of. rewrite B, C. apply H2, Hid.
  - intros id a k Hid. rewrite Ht in Hid. rewrite <- up_l_cnlog, D, up_l_cnlog, Hst. unfold regm, nregm. rewrite B, C. apply H3, Hid.
  - intros id Hid. rewrite Ht in Hid. rewrite <- altl_cnlog, D, altl_cnlog. apply H4, Hid.
Qed.

(* every listener registered for s is told "offered" / "stopped" about (s, a), and the store changes accordingly *)
Lemma F5_batchA off t s a w w' : F5 w ->
  watched w' = watched w -> watch_all w' = watch_all w -> mlog (glog w') = mlog (glog w) ->
  cnlog (out w') = map (evA off t s a) (rev (recips s w)) ++ cnlog (out w) ->
  NoDup (map fst (found w')) ->
  stored a s w = negb off ->
  (forall a' k, stored a' k w' = if (a =? a') && fkey s k then off else stored a' k w) ->
  F5 w'.
Proof.
  intros [H1 H2 H3 H4] B C E D Hn Hb Hst.
  assert (Ht : forall id, tainted id (glog w') = tainted id (glog w)) by (intros id; rewrite <- tainted_mlog, E, tainted_mlog; reflexivity).
  assert (Hr : forall id k, regm id k w' = regm id k w) by (intros; unfold regm, nregm; rewrite B, C; reflexivity).
  constructor; [exact Hn| | |].
  - intros id Hid. rewrite Ht in Hid. unfold regs_of. rewrite B, C. apply H2, Hid.
  - intros id a' k Hid. rewrite Ht in Hid. rewrite <- up_l_cnlog, D, up_l_evA, up_l_cnlog, memid_rev, memid_recips, Hst, Hr, (H3 id a' k Hid).
    destruct ((a =? a') && fkey s k) eqn:E1.
    + apply andb_true_iff in E1. destruct E1 as [Ea Ek]. apply N.eqb_eq in Ea. subst a'.
      rewrite (regm_cong id s k w Ek). rewrite <- (amem_cong (KService s) (KService k) _ Ek : stored a s w = stored a k w), Hb.
      rewrite N.eqb_refl, Ek. destruct (regm id k w), off; reflexivity.
    + rewrite <- andb_assoc, E1, andb_false_r. reflexivity.
  - intros id Hid. rewrite Ht in Hid. rewrite <- altl_cnlog, D, altl_evA, altl_cnlog, (H4 id Hid), andb_true_r.
    + rewrite memid_rev, memid_recips, up_l_cnlog, (H3 id a s Hid), Hb. destruct (regm id s w); [|reflexivity]. rewrite andb_true_r. apply Bool.eqb_reflx.
    + rewrite count_rev, count_recips. pose proof (nregm_le id s w). pose proof (H2 id Hid). lia.
Qed.

Lemma nodup_touch a (s : store) : NoDup (map fst s) -> NoDup (map fst (touch a s)).
Proof.
  intros H. unfold touch, amem. destruct (aget N.eqb a s) eqn:E; [exact H|]. rewrite map_app. cbn [map fst].
  apply nodup_snoc; [exact H|]. apply (aget_none_notin N.eqb N.eqb_eq). exact E.
Qed.
Lemma nodup_aset_found a d (s : store) : NoDup (map fst s) -> NoDup (map fst (aset N.eqb a d s)).
Proof. apply (nodup_aset N.eqb N.eqb_eq). Qed.

(* what the tail of a refresh does on the discovery side *)
Lemma tail_found ttl a k w1 :
  let w' := fst (refresh_tail SFound ttl a k w1) in
  out w' = out w1 /\ watched w' = watched w1 /\ watch_all w' = watch_all w1 /\ mlog (glog w') = mlog (glog w1)
  /\ exists tid, found w' = aset N.eqb a (adel key_eqb k (inner a (touch a (found w1))) ++ [(k, tid)]) (touch a (found w1)).
Proof.
  unfold refresh_tail. cbv zeta. destruct (ttl =? TTL_FOREVER).
  - cbn [fst]. repeat split; try reflexivity. exists None. reflexivity.
  - unfold call_later. cbn [fst]. repeat split; try reflexivity. eexists. reflexivity.
Qed.

Lemma stored_snoc a k tid (s : store) a' k' : NoDupE (inner a s) ->
  amem key_eqb (KService k') (inner a' (aset N.eqb a (adel key_eqb k (inner a s) ++ [(k, tid)]) s))
  = if (a =? a') then amem key_eqb (KService k') (inner a s) || key_eqb k (KService k') else amem key_eqb (KService k') (inner a' s).
Proof.
  intros Hnd. rewrite inner_aset, (N.eqb_sym a' a). destruct (a =? a') eqn:E; [|reflexivity].
  rewrite amem_snoc. rewrite (key_eqb_sym (KService k') k). destruct (key_eqb k (KService k')) eqn:Ek.
  - rewrite !orb_true_r. reflexivity.
  - rewrite amem_adel_other by exact Ek. reflexivity.
Qed.

(* ------------------------------------------------------------------ the TimedStore of found services *)
Lemma recips_eq s w w' : watched w' = watched w -> watch_all w' = watch_all w -> recips s w' = recips s w.
Proof. intros A B. unfold recips. rewrite A, B. reflexivity. Qed.

Lemma stored_removed a s (st : store) a' k : NoDupE (inner a st) ->
  amem key_eqb (KService k) (inner a' (aset N.eqb a (adel key_eqb (KService s) (inner a st)) (touch a st)))
  = if (a =? a') && fkey s k then false else amem key_eqb (KService k) (inner a' st).
Proof.
  intros Hnd. rewrite inner_aset, (N.eqb_sym a' a). destruct (a =? a') eqn:E; cbn [andb]; [|apply f_equal, inner_touch].
  apply N.eqb_eq in E. subst a'. unfold fkey. destruct (service_eqb s k) eqn:Ek.
  - apply amem_adel_same; [exact Hnd|exact Ek].
  - apply amem_adel_other. exact Ek.
Qed.

(* removal of a stored offer with its notification: stop, expiry *)
Lemma F5_remove_found X a s w w' t : GP X w -> F5 w -> amem key_eqb (KService s) (inner a (found w)) = true ->
  watched w' = watched w -> watch_all w' = watch_all w -> mlog (glog w') = mlog (glog w) ->
  cnlog (out w') = map (evA false t s a) (rev (recips s w)) ++ cnlog (out w) ->
  found w' = aset N.eqb a (adel key_eqb (KService s) (inner a (found w))) (touch a (found w)) ->
  F5 w'.
Proof.
  intros Hg H5 Hm B C E D Hf. pose proof (g_keys _ _ Hg SFound a) as Hnd. cbn [get_store] in Hnd.
  apply (F5_batchA false t s a w w' H5 B C E D).
  - rewrite Hf. apply nodup_aset_found, nodup_touch, (f5_addrs _ H5).
  - exact Hm.
  - intros a' k. unfold stored. rewrite Hf. apply stored_removed. exact Hnd.
Qed.

Lemma F5_store_stop_found X a k w : GP X w -> F5 w -> F5 (store_stop SFound a k w).
Proof.
  intros Hg H5. pose proof (g_keys _ _ Hg SFound a) as Hnd. cbn [get_store] in Hnd.
  unfold store_stop. cbn [get_store]. rewrite inner_touch.
  destruct (aget key_eqb k (inner a (found w))) as [old|] eqn:Ea.
  - destruct k as [s|sub]; cbn [store_callback].
    + set (w2 := cancel_opt old (put_store SFound (aset N.eqb a (adel key_eqb (KService s) (inner a (found w))) (touch a (found w))) w)).
      change listener_stopped with (lst false). destruct (notify_spec false s a w2) as [Q C]. cbv zeta in Q, C.
      assert (W : watched w2 = watched w /\ watch_all w2 = watch_all w /\ glog w2 = glog w /\ out w2 = out w
                  /\ found w2 = aset N.eqb a (adel key_eqb (KService s) (inner a (found w))) (touch a (found w)))
        by (unfold w2; destruct old; repeat split; reflexivity).
      destruct W as (W1 & W2 & W3 & W4 & W5).
      apply (F5_remove_found X a s w _ (now w2) Hg H5 (aget_amem _ _ _ Ea)).
      * rewrite (fq_watched _ _ Q). exact W1.
      * rewrite (fq_all _ _ Q). exact W2.
      * rewrite (fq_ml _ _ Q), W3. reflexivity.
      * rewrite C, (recips_eq s w w2 W1 W2), W4. reflexivity.
      * rewrite (fq_found _ _ Q). exact W5.
    + (* a key of the other kind: nobody is told *)
      apply (F5_frame w); try (destruct old; reflexivity); [|intros a' k' |exact H5].
      * assert (Hf : found (cancel_opt old (put_store SFound (aset N.eqb a (adel key_eqb (KSub sub) (inner a (found w))) (touch a (found w))) w))
                     = aset N.eqb a (adel key_eqb (KSub sub) (inner a (found w))) (touch a (found w))) by (destruct old; reflexivity).
        rewrite Hf. apply nodup_aset_found, nodup_touch, (f5_addrs _ H5).
      * assert (Hf : found (cancel_opt old (put_store SFound (aset N.eqb a (adel key_eqb (KSub sub) (inner a (found w))) (touch a (found w))) w))
                     = aset N.eqb a (adel key_eqb (KSub sub) (inner a (found w))) (touch a (found w))) by (destruct old; reflexivity).
        unfold stored. rewrite Hf, inner_aset. destruct (a' =? a) eqn:E; [|apply f_equal, inner_touch].
        apply N.eqb_eq in E. subst a'. apply amem_adel_other. reflexivity.
  - apply (F5_frame w); try reflexivity; [apply nodup_touch, (f5_addrs _ H5)| |exact H5].
    intros a' k'. unfold stored. cbn [put_store found set_found]. rewrite inner_touch. reflexivity.
Qed.

Lemma F5_store_expired_found X a k w : GP X w -> F5 w -> F5 (store_expired SFound a k w).
Proof.
  intros Hg H5. pose proof (g_keys _ _ Hg SFound a) as Hnd. cbn [get_store] in Hnd.
  unfold store_expired. cbn [get_store]. rewrite inner_touch.
  destruct (aget key_eqb k (inner a (found w))) as [old|] eqn:Ea.
  - destruct k as [s|sub]; cbn [store_callback].
    + set (w2 := put_store SFound (aset N.eqb a (adel key_eqb (KService s) (inner a (found w))) (touch a (found w))) w).
      change listener_stopped with (lst false). destruct (notify_spec false s a w2) as [Q C]. cbv zeta in Q, C.
      apply (F5_remove_found X a s w _ (now w2) Hg H5 (aget_amem _ _ _ Ea)).
      * cbn [ghost watched set_glog]. rewrite (fq_watched _ _ Q). reflexivity.
      * cbn [ghost watch_all set_glog]. rewrite (fq_all _ _ Q). reflexivity.
      * cbn [ghost glog set_glog]. unfold mlog at 1. cbn [filter snd]. fold (mlog (glog (notify_service (lst false) s a w2))). rewrite (fq_ml _ _ Q). reflexivity.
      * cbn [ghost out set_glog]. rewrite C. reflexivity.
      * cbn [ghost found set_glog]. rewrite (fq_found _ _ Q). reflexivity.
    + apply (F5_frame w); try reflexivity; [| |exact H5].
      * cbn [ghost found set_glog put_store set_found]. apply nodup_aset_found, nodup_touch, (f5_addrs _ H5).
      * intros a' k'. unfold stored. cbn [ghost found set_glog put_store set_found]. rewrite inner_aset. destruct (a' =? a) eqn:E; [|apply f_equal, inner_touch].
        apply N.eqb_eq in E. subst a'. apply amem_adel_other. reflexivity.
  - apply (F5_frame w); try reflexivity; [apply nodup_touch, (f5_addrs _ H5)| |exact H5].
    intros a' k'. unfold stored. cbn [put_store found set_found]. rewrite inner_touch. reflexivity.
Qed.

Lemma tail_stored ttl a k w1 : NoDupE (inner a (found w1)) -> NoDup (map fst (found w1)) ->
  let w' := fst (refresh_tail SFound ttl a k w1) in
  NoDup (map fst (found w'))
  /\ forall a' k', stored a' k' w' = if a =? a' then stored a k' w1 || key_eqb k (KService k') else stored a' k' w1.
Proof.
  intros Hnd Hn. cbv zeta. destruct (tail_found ttl a k w1) as (_ & _ & _ & _ & tid & Hf). cbv zeta in Hf. split.
  - rewrite Hf. apply nodup_aset_found, nodup_touch, Hn.
  - intros a' k'. unfold stored. rewrite Hf, stored_snoc by (rewrite inner_touch; exact Hnd). rewrite !inner_touch. reflexivity.
Qed.

Lemma F5_store_refresh_found X ttl a k w : GP X w -> F5 w -> F5 (fst (store_refresh SFound ttl a k w)).
Proof.
  intros Hg H5. pose proof (g_keys _ _ Hg SFound a) as Hnd. cbn [get_store] in Hnd.
  rewrite store_refresh_unfold. cbv zeta. cbn [get_store]. rewrite inner_touch.
  destruct (aget key_eqb k (inner a (found w))) as [old|] eqn:Ea.
  - (* a refresh of a stored offer: the entry is replaced under an equivalent key, nobody is told *)
    set (w1 := cancel_opt old (put_store SFound (aset N.eqb a (adel key_eqb k (inner a (found w))) (touch a (found w))) w)).
    assert (W : watched w1 = watched w /\ watch_all w1 = watch_all w /\ glog w1 = glog w /\ out w1 = out w
                /\ found w1 = aset N.eqb a (adel key_eqb k (inner a (found w))) (touch a (found w)))
      by (unfold w1; destruct old; repeat split; reflexivity).
    destruct W as (W1 & W2 & W3 & W4 & W5).
    destruct (tail_found ttl a k w1) as (T1 & T2 & T3 & T4 & _). cbv zeta in T1, T2, T3, T4.
    assert (Hi : inner a (found w1) = adel key_eqb k (inner a (found w))) by (rewrite W5, inner_aset, N.eqb_refl; reflexivity).
    destruct (tail_stored ttl a k w1) as [N1 N2].
    { rewrite Hi. apply nodupE_adel, Hnd. }
    { rewrite W5. apply nodup_aset_found, nodup_touch, (f5_addrs _ H5). }
    cbv zeta in N1, N2.
    apply (F5_frame w); [congruence|congruence|congruence|rewrite T1, W4; reflexivity|exact N1| |exact H5].
    intros a' k'. rewrite N2. unfold stored. rewrite W5, !inner_aset, N.eqb_refl, (N.eqb_sym a' a).
    destruct (a =? a') eqn:E; [|apply f_equal, inner_touch]. apply N.eqb_eq in E. subst a'.
    destruct (key_eqb k (KService k')) eqn:Ek.
    + rewrite orb_true_r. symmetry. rewrite <- (amem_cong k (KService k') _ Ek). exact (aget_amem _ _ _ Ea).
    + rewrite orb_false_r. apply amem_adel_other. exact Ek.
  - destruct k as [s|sub].
    + (* a new offer: recorded after its listeners were told *)
      set (w0 := put_store SFound (touch a (found w)) w).
      change listener_offered with (lst true). destruct (notify_spec true s a w0) as [Q C]. cbv zeta in Q, C.
      set (w1 := notify_service (lst true) s a w0) in *.
      destruct (tail_found ttl a (KService s) w1) as (T1 & T2 & T3 & T4 & _). cbv zeta in T1, T2, T3, T4.
      assert (Hf1 : found w1 = touch a (found w)) by (rewrite (fq_found _ _ Q); reflexivity).
      destruct (tail_stored ttl a (KService s) w1) as [N1 N2].
      { rewrite Hf1, inner_touch. exact Hnd. }
      { rewrite Hf1. apply nodup_touch, (f5_addrs _ H5). }
      cbv zeta in N1, N2.
      apply (F5_batchA true (now w0) s a w _ H5).
      * rewrite T2, (fq_watched _ _ Q). reflexivity.
      * rewrite T3, (fq_all _ _ Q). reflexivity.
      * rewrite T4, (fq_ml _ _ Q). reflexivity.
      * rewrite T1, C. reflexivity.
      * exact N1.
      * unfold stored, amem. rewrite Ea. reflexivity.
      * intros a' k'. rewrite N2. unfold stored. rewrite Hf1, !inner_touch. cbn [key_eqb]. fold (fkey s k').
        destruct (a =? a') eqn:E; cbn [andb]; [|reflexivity]. apply N.eqb_eq in E. subst a'.
        destruct (fkey s k'); [apply orb_true_r|apply orb_false_r].
    + (* a key of the other kind *)
      set (w0 := put_store SFound (touch a (found w)) w).
      destruct (tail_found ttl a (KSub sub) w0) as (T1 & T2 & T3 & T4 & _). cbv zeta in T1, T2, T3, T4.
      destruct (tail_stored ttl a (KSub sub) w0) as [N1 N2].
      { unfold w0. cbn [put_store found set_found]. rewrite inner_touch. exact Hnd. }
      { unfold w0. cbn [put_store found set_found]. apply nodup_touch, (f5_addrs _ H5). }
      cbv zeta in N1, N2.
      apply (F5_frame w); [rewrite T2; reflexivity|rewrite T3; reflexivity|rewrite T4; reflexivity|rewrite T1; reflexivity|exact N1| |exact H5].
      intros a' k'. rewrite N2. unfold stored, w0. cbn [put_store found set_found key_eqb]. rewrite !inner_touch, orb_false_r.
      destruct (a =? a') eqn:E; [apply N.eqb_eq in E; subst a'|]; reflexivity.
Qed.

(* the loop of stop_all_for_address on the found services: the address is emptied first, then one round of
   notifications per entry *)
Lemma found_stop_loop a w : F5 w -> forall rest acc, NoDupE rest ->
  watched acc = watched w -> watch_all acc = watch_all w -> mlog (glog acc) = mlog (glog w) ->
  (forall id k, tainted id (glog w) = false -> up_l id a k (out acc) = amem key_eqb (KService k) rest && regm id k w) ->
  (forall id a' k, tainted id (glog w) = false -> (a =? a') = false -> up_l id a' k (out acc) = up_l id a' k (out w)) ->
  (forall id, tainted id (glog w) = false -> altl id (out acc) = true) ->
  let acc' := fold_left (fun x p => store_callback SFound (fst p) a (cancel_opt (snd p) x)) rest acc in
  watched acc' = watched w /\ watch_all acc' = watch_all w /\ mlog (glog acc') = mlog (glog w) /\ found acc' = found acc
  /\ (forall id k, tainted id (glog w) = false -> up_l id a k (out acc') = false)
  /\ (forall id a' k, tainted id (glog w) = false -> (a =? a') = false -> up_l id a' k (out acc') = up_l id a' k (out w))
  /\ (forall id, tainted id (glog w) = false -> altl id (out acc') = true).
Proof.
  intros H5. induction rest as [|[kp tid] rest IH]; intros acc Hnd B C E Hu Ho Ha; cbn [fold_left]; cbv zeta.
  - repeat split; auto.
  - inversion Hnd as [|? ? ? Hne Hnd']; subst. cbn [fst snd].
    set (acc1 := cancel_opt tid acc).
    assert (W : watched acc1 = watched acc /\ watch_all acc1 = watch_all acc /\ glog acc1 = glog acc /\ out acc1 = out acc /\ found acc1 = found acc)
      by (unfold acc1; destruct tid; repeat split; reflexivity).
    destruct W as (W1 & W2 & W3 & W4 & W5).
    destruct kp as [s|sub]; cbn [store_callback].
    + change listener_stopped with (lst false). destruct (notify_spec false s a acc1) as [Q Cn]. cbv zeta in Q, Cn.
      set (acc2 := notify_service (lst false) s a acc1) in *.
      assert (Hrec : recips s acc1 = recips s w) by (apply recips_eq; congruence).
      destruct (IH acc2 Hnd') as (R1 & R2 & R3 & R4 & R5 & R6 & R7).
      * rewrite (fq_watched _ _ Q). congruence.
      * rewrite (fq_all _ _ Q). congruence.
      * rewrite (fq_ml _ _ Q), W3. exact E.
      * intros id k Hid. rewrite <- up_l_cnlog, Cn, up_l_evA, up_l_cnlog, W4, Hrec, memid_rev, memid_recips, N.eqb_refl, (Hu id k Hid).
        unfold amem at 1. cbn [aget key_eqb]. rewrite (service_eqb_sym k s). fold (fkey s k).
        destruct (fkey s k) eqn:Ek.
        -- rewrite (regm_cong id s k w Ek). cbn [andb].
           assert (Hm : amem key_eqb (KService k) rest = false).
           { unfold amem. destruct (aget key_eqb (KService k) rest) as [v|] eqn:Eg; [|reflexivity].
             destruct (aget_in_E _ _ _ Eg) as (x & Hin & Hx). pose proof (Hne _ Hin) as Hq. cbn [fst] in Hq.
             rewrite (key_eqb_cong (KService s) (KService k) x Ek) in Hq. congruence. }
           rewrite Hm. destruct (regm id k w); reflexivity.
        -- rewrite andb_false_r. reflexivity.
      * intros id a' k Hid Hne'. rewrite <- up_l_cnlog, Cn, up_l_evA, up_l_cnlog, W4, Hne', andb_false_r. cbn [andb]. apply Ho; assumption.
      * intros id Hid. rewrite <- altl_cnlog, Cn, altl_evA, altl_cnlog, W4, (Ha id Hid), andb_true_r.
        -- rewrite Hrec, memid_rev, memid_recips, up_l_cnlog, (Hu id s Hid). unfold amem. cbn [aget key_eqb]. rewrite service_eqb_refl. cbn [andb].
           destruct (regm id s w); reflexivity.
        -- rewrite Hrec, count_rev, count_recips. pose proof (nregm_le id s w). pose proof (f5_one _ H5 id Hid). lia.
      * cbv zeta in *. repeat split; auto. transitivity (found acc2); [exact R4|rewrite (fq_found _ _ Q); exact W5].
    + destruct (IH acc1 Hnd') as (R1 & R2 & R3 & R4 & R5 & R6 & R7); try congruence.
      * intros id k Hid. rewrite W4, (Hu id k Hid). unfold amem at 1. cbn [aget key_eqb]. reflexivity.
      * intros id a' k Hid Hne'. rewrite W4. apply Ho; assumption.
      * intros id Hid. rewrite W4. apply Ha, Hid.
      * cbv zeta in *. repeat split; auto. transitivity (found acc1); [exact R4|exact W5].
Qed.

Lemma F5_store_stop_all_for_address_found X a w : GP X w -> F5 w -> F5 (store_stop_all_for_address SFound a w).
Proof.
  intros Hg H5. pose proof (g_keys _ _ Hg SFound a) as Hnd. cbn [get_store] in Hnd.
  unfold store_stop_all_for_address. cbn [get_store]. rewrite inner_touch.
  set (w1 := put_store SFound (aset N.eqb a [] (touch a (found w))) w).
  destruct (found_stop_loop a w H5 (inner a (found w)) w1 Hnd) as (R1 & R2 & R3 & R4 & R5 & R6 & R7); try reflexivity.
  - intros id k Hid. apply (f5_up _ H5 id a k Hid).
  - intros id Hid. apply (f5_alt _ H5 id Hid).
  - cbv zeta in *. set (w' := fold_left _ (inner a (found w)) w1) in *.
    assert (Ht : forall id, tainted id (glog w') = tainted id (glog w)) by (intros id; rewrite <- tainted_mlog, R3, tainted_mlog; reflexivity).
    assert (Hf : found w' = aset N.eqb a [] (touch a (found w))) by (rewrite R4; reflexivity).
    constructor.
    + rewrite Hf. apply nodup_aset_found, nodup_touch, (f5_addrs _ H5).
    + intros id Hid. rewrite Ht in Hid. unfold regs_of. rewrite R1, R2. apply (f5_one _ H5 id Hid).
    + intros id a' k Hid. rewrite Ht in Hid. unfold stored, regm, nregm. rewrite Hf, R1, R2, inner_aset, (N.eqb_sym a' a).
      destruct (a =? a') eqn:E.
      * apply N.eqb_eq in E. subst a'. rewrite (R5 id k Hid). reflexivity.
      * rewrite (R6 id a' k Hid E), inner_touch. apply (f5_up _ H5 id a' k Hid).
    + intros id Hid. rewrite Ht in Hid. apply R7, Hid.
Qed.

(* ------------------------------------------------------------------ the whole store at once *)
Lemma found_store_callback k a w : found (store_callback SFound k a w) = found w.
Proof. destruct k as [s|sub]; [|reflexivity]. cbn [store_callback]. change listener_stopped with (lst false). apply (fq_found _ _ (proj1 (notify_spec false s a w))). Qed.
Lemma found_callbacks a : forall l acc,
  found (fold_left (fun x p => store_callback SFound (fst p) a (cancel_opt (snd p) x)) l acc) = found acc.
Proof. induction l as [|p l IH]; intros acc; cbn [fold_left]; [reflexivity|]. rewrite IH, found_store_callback. destruct (snd p); reflexivity. Qed.
Lemma found_stop_all_for_address a w : found (store_stop_all_for_address SFound a w) = aset N.eqb a [] (touch a (found w)).
Proof. unfold store_stop_all_for_address. rewrite found_callbacks. reflexivity. Qed.

Lemma found_stop_all_fold X : forall (l : list (addr * list (key * option N))) w, GP X w -> F5 w ->
  GP X (fold_left (fun acc p => store_stop_all_for_address SFound (fst p) acc) l w)
  /\ F5 (fold_left (fun acc p => store_stop_all_for_address SFound (fst p) acc) l w).
Proof.
  induction l as [|p l IH]; intros w Hg Hs; cbn [fold_left]; [split; assumption|].
  apply IH; [apply keeps_store_stop_all_for_address; exact Hg|eapply F5_store_stop_all_for_address_found; eauto].
Qed.
Lemma found_stop_all_empties : forall (l : list (addr * list (key * option N))) w a,
  (~ In a (map fst l) -> inner a (found w) = []) ->
  inner a (found (fold_left (fun acc p => store_stop_all_for_address SFound (fst p) acc) l w)) = [].
Proof.
  induction l as [|p l IH]; intros w a H; cbn [fold_left]; [apply H; intros []|].
  apply IH. intros Hn. rewrite found_stop_all_for_address, inner_aset.
  destruct (N.eqb_spec a (fst p)) as [E|E]; [reflexivity|]. rewrite inner_touch. apply H. cbn [map]. intros [F|F]; [apply E; symmetry; exact F|exact (Hn F)].
Qed.

Lemma F5_store_stop_all_found X w : GP X w -> F5 w -> F5 (store_stop_all SFound w).
Proof.
  intros Hg Hs. unfold store_stop_all. cbn [get_store]. destruct (found_stop_all_fold X (found w) w Hg Hs) as [Hg1 Hs1].
  set (w1 := fold_left _ (found w) w) in *.
  apply (F5_frame w1); try reflexivity; [constructor| |exact Hs1].
  intros a k. unfold stored. cbn [put_store found set_found]. unfold inner at 1. cbn [aget]. unfold w1. rewrite found_stop_all_empties; [reflexivity|].
  intros Hn. unfold inner. destruct (aget N.eqb a (found w)) as [d|] eqn:Ea; [|reflexivity].
  exfalso. apply Hn. clear -Ea. induction (found w) as [|[k0 v] l IH]; [discriminate|]. cbn [aget] in Ea. cbn [map fst].
  destruct (N.eqb_spec a k0) as [->|Hne]; [left; reflexivity|right; apply IH; exact Ea].
Qed.

(* ------------------------------------------------------------------ the subscription stores leave the discovery side alone *)
Lemma fx_store_callback_subs i k a w : fx w (store_callback (SSubs i) k a w).
Proof. destruct k as [s|sub]; cbn [store_callback]; [apply fx_refl|apply fx_emit; reflexivity]. Qed.
Lemma fx_store_stop_subs i a k w : fx w (store_stop (SSubs i) a k w).
Proof.
  unfold store_stop. destruct (aget key_eqb k _); [|apply fx_put_subs].
  eapply fx_trans; [|apply fx_store_callback_subs]. eapply fx_trans; [apply fx_put_subs|apply fx_cancel_opt].
Qed.
Lemma fx_store_expired_subs i a k w : fx w (store_expired (SSubs i) a k w).
Proof.
  unfold store_expired. destruct (aget key_eqb k _); [|apply fx_put_subs].
  eapply fx_trans; [|apply fx_ghost; reflexivity]. eapply fx_trans; [apply fx_put_subs|apply fx_store_callback_subs].
Qed.
Lemma fx_store_stop_all_for_address_subs i a w : fx w (store_stop_all_for_address (SSubs i) a w).
Proof.
  unfold store_stop_all_for_address. eapply fx_trans; [apply fx_put_subs|].
  apply (fx_fold (fun acc p => store_callback (SSubs i) (fst p) a (cancel_opt (snd p) acc))). intros p w0.
  eapply fx_trans; [apply fx_cancel_opt|apply fx_store_callback_subs].
Qed.
Lemma fx_store_stop_all_subs i w : fx w (store_stop_all (SSubs i) w).
Proof.
  unfold store_stop_all. eapply fx_trans; [|apply fx_put_subs].
  apply (fx_fold (fun acc p => store_stop_all_for_address (SSubs i) (fst p) acc)). intros p w0. apply fx_store_stop_all_for_address_subs.
Qed.
Lemma fx_refresh_tail_subs i ttl a k w : fx w (fst (refresh_tail (SSubs i) ttl a k w)).
Proof.
  unfold refresh_tail. cbv zeta. destruct (ttl =? TTL_FOREVER); cbn [fst].
  - eapply fx_trans; [|apply fx_put_subs]. apply fx_ghost. reflexivity.
  - unfold call_later. cbn [fst]. eapply fx_trans; [|apply fx_put_subs]. constructor; reflexivity.
Qed.
Lemma fx_store_refresh_subs i ttl a k w : fx w (fst (store_refresh (SSubs i) ttl a k w)).
Proof.
  rewrite store_refresh_unfold. cbv zeta. destruct (aget key_eqb k _) as [old|].
  - eapply fx_trans; [|apply fx_refresh_tail_subs]. eapply fx_trans; [apply fx_put_subs|apply fx_cancel_opt].
  - destruct k as [s|sub]; [eapply fx_trans; [apply fx_put_subs|apply fx_refresh_tail_subs]|].
    unfold client_subscribed. set (w0 := put_store (SSubs i) _ w). assert (H0 : fx w w0) by apply fx_put_subs.
    destruct (aget N.eqb i (insts w0)) as [ins|]; cbn [negb fst].
    + destruct (negb (memN (sb_id sub) (in_reject ins))) eqn:Eok; cbn [negb fst].
      * eapply fx_trans; [exact H0|]. eapply fx_trans; [|apply fx_refresh_tail_subs]. apply fx_emit. reflexivity.
      * eapply fx_trans; [exact H0|apply fx_emit; reflexivity].
    + exact H0.
Qed.

(* ------------------------------------------------------------------ found_iter for one recording listener (watch / unwatch) *)
Definition fstep (off : bool) (f : service -> bool) (l : listener) (acc : world) (a : addr) (k : key) : world :=
  match k with KService s => if f s then lst off l s a acc else acc | KSub _ => acc end.
Lemma found_iter_flat off f l w :
  found_iter f (lst off l) w = fold_left (fun acc x => fstep off f l acc (fst x) (snd x)) (flat (found w)) w.
Proof. unfold found_iter. apply (fold_flat (fstep off f l)). Qed.

Lemma instore_app f a k xs ys : instore f a k (xs ++ ys) = instore f a k xs || instore f a k ys.
Proof. apply existsb_app. Qed.
Lemma instore_distinct f a s xs : (forall y, In y xs -> keq y (a, KService s) = false) -> instore f a s xs = false.
Proof.
  intros H. apply Bool.not_true_is_false. intros E. apply existsb_exists in E. destruct E as (y & Hin & Hy).
  apply andb_true_iff in Hy. destruct Hy as [H1 H2]. pose proof (H y Hin) as Hk. unfold keq in Hk. cbn [fst snd] in Hk.
  assert (Hk' : true && key_eqb (snd y) (KService s) = false) by (rewrite <- H1; exact Hk). clear Hk. rename Hk' into Hk. cbn [andb] in Hk.
  destruct (snd y) as [s'|sub]; [|discriminate]. apply andb_true_iff in H2. destruct H2 as [_ H2]. unfold fkey in H2. cbn [key_eqb] in Hk. congruence.
Qed.

Lemma iter_rec off f id0 : forall xs acc, distinct xs ->
  let acc' := fold_left (fun acc0 x => fstep off f (LRec id0) acc0 (fst x) (snd x)) xs acc in
  fq acc acc'
  /\ (forall id a k, up_l id a k (out acc') = if (id0 =? id) && instore f a k xs then off else up_l id a k (out acc))
  /\ (forall id, (id0 =? id) = false -> altl id (out acc') = altl id (out acc))
  /\ ((forall a s, In (a, KService s) xs -> f s = true -> up_l id0 a s (out acc) = negb off) -> altl id0 (out acc') = altl id0 (out acc)).
Proof.
  induction xs as [|x xs IH] using rev_ind; intros acc Hd; cbv zeta.
  - cbn [fold_left]. repeat split; try reflexivity. intros id a k. cbn [instore existsb]. rewrite andb_false_r. reflexivity.
  - rewrite fold_left_app. cbn [fold_left]. destruct (distinct_snoc_inv _ _ Hd) as [Hd1 Hx].
    destruct (IH acc Hd1) as (Q & U & A1 & A2). cbv zeta in Q, U, A1, A2.
    set (W := fold_left _ xs acc) in *. destruct x as [a0 k0]. cbn [fst snd]. unfold fstep.
    destruct k0 as [s|sub]; [destruct (f s) eqn:Ef|].
    + destruct (lst_one off (LRec id0) s a0 W) as [Q1 _].
      assert (Ho : out (lst off (LRec id0) s a0 W) = evA off (now W) s a0 id0 :: out W) by (destruct off; reflexivity).
      split; [eapply fq_trans; eauto|]. split; [|split].
      * intros id a k. rewrite Ho, up_l_one, U, instore_app. cbn [instore existsb fst snd]. fold (instore f a k xs). rewrite Ef, orb_false_r. cbn [andb].
        destruct (id0 =? id), (instore f a k xs), (a0 =? a), (fkey s k); reflexivity.
      * intros id Hne. rewrite Ho, altl_one, Hne. cbn [andb]. apply A1, Hne.
      * intros Hpre. rewrite Ho, altl_one, N.eqb_refl, U, N.eqb_refl, (instore_distinct f a0 s xs Hx). cbn [andb].
        rewrite (Hpre a0 s) by (try (apply in_app_iff; right; left; reflexivity); exact Ef). rewrite Bool.eqb_reflx. cbn [andb].
        apply A2. intros a s' Hin Hf. apply Hpre; [apply in_app_iff; left; exact Hin|exact Hf].
    + split; [exact Q|]. split; [|split].
      * intros id a k. rewrite U, instore_app. cbn [instore existsb fst snd]. rewrite Ef. cbn [andb]. rewrite andb_false_r, !orb_false_r. reflexivity.
      * exact A1.
      * intros Hpre. apply A2. intros a s' Hin Hf. apply Hpre; [apply in_app_iff; left; exact Hin|exact Hf].
    + split; [exact Q|]. split; [|split].
      * intros id a k. rewrite U, instore_app. cbn [instore existsb fst snd]. rewrite andb_false_r, !orb_false_r. reflexivity.
      * exact A1.
      * intros Hpre. apply A2. intros a s' Hin Hf. apply Hpre; [apply in_app_iff; left; exact Hin|exact Hf].
Qed.

(* an auto-subscribe listener: no notification is recorded *)
Lemma iter_auto off f g : forall xs acc,
  let acc' := fold_left (fun acc0 x => fstep off f (LAuto g) acc0 (fst x) (snd x)) xs acc in
  fq acc acc' /\ cnlog (out acc') = cnlog (out acc).
Proof.
  induction xs as [|x xs IH]; intros acc; cbv zeta; cbn [fold_left]; [split; [apply fq_refl|reflexivity]|].
  destruct (IH (fstep off f (LAuto g) acc (fst x) (snd x))) as [Q C]. cbv zeta in Q, C.
  assert (H1 : fq acc (fstep off f (LAuto g) acc (fst x) (snd x)) /\ cnlog (out (fstep off f (LAuto g) acc (fst x) (snd x))) = cnlog (out acc)).
  { unfold fstep. destruct (snd x) as [s|sub]; [|split; [apply fq_refl|reflexivity]]. destruct (f s); [|split; [apply fq_refl|reflexivity]].
    destruct (lst_one off (LAuto g) s (fst x) acc) as [Q1 C1]. split; [exact Q1|exact C1]. }
  destruct H1 as [Q1 C1]. split; [eapply fq_trans; eauto|congruence].
Qed.

(* ------------------------------------------------------------------ registrations: watch / unwatch *)
Lemma regs_wsum l w : regs_of l w = (wsum (fun _ => true) l (watched w) + occ l (watch_all w))%nat.
Proof. reflexivity. Qed.
Lemma nregm_wsum id k w : nregm id k w = (wsum (fun flt => matches_service flt k) (LRec id) (watched w) + occ (LRec id) (watch_all w))%nat.
Proof. reflexivity. Qed.
Lemma wsum_le m x l : (wsum m x l <= wsum (fun _ => true) x l)%nat.
Proof. unfold wsum. induction l as [|p l IH]; [apply le_n|]. cbn [map]. rewrite !lsum_cons. destruct (m (fst p)); lia. Qed.
Lemma matches_service_cong_l f f' k : service_eqb f f' = true -> matches_service f' k = matches_service f k.
Proof.
  unfold service_eqb, matches_service. intros H. repeat (apply andb_true_iff in H; destruct H as [H ?]).
  apply N.eqb_eq in H. repeat match goal with E : (_ =? _) = true |- _ => apply N.eqb_eq in E end.
  repeat match goal with E : _ f = _ f' |- _ => rewrite <- E; clear E end. reflexivity.
Qed.

Lemma F5_frame2 w w' : found w' = found w -> mlog (glog w') = mlog (glog w) -> cnlog (out w') = cnlog (out w) ->
  (forall id, regs_of (LRec id) w' = regs_of (LRec id) w) -> (forall id k, nregm id k w' = nregm id k w) -> F5 w -> F5 w'.
Proof.
  intros A E D Hr Hn [H1 H2 H3 H4].
  assert (Ht : forall id, tainted id (glog w') = tainted id (glog w)) by (intros id; rewrite <- tainted_mlog, E, tainted_mlog; reflexivity).
  constructor.
  - rewrite A. exact H1.
  - intros id Hid. rewrite Ht in Hid. rewrite Hr. apply H2, Hid.
  - intros id a k Hid. rewrite Ht in Hid. rewrite <- up_l_cnlog, D, up_l_cnlog. unfold stored, regm. rewrite A, Hn. apply H3, Hid.
  - intros id Hid. rewrite Ht in Hid. rewrite <- altl_cnlog, D, altl_cnlog. apply H4, Hid.
Qed.

(* only listener id0's registrations and notifications change *)
Lemma F5_reg_change id0 w w' : F5 w -> found w' = found w ->
  (forall id, (id0 =? id) = false -> regs_of (LRec id) w' = regs_of (LRec id) w /\ forall k, nregm id k w' = nregm id k w) ->
  (forall id, (id0 =? id) = false -> tainted id (glog w') = tainted id (glog w)) ->
  (forall id a k, (id0 =? id) = false -> up_l id a k (out w') = up_l id a k (out w)) ->
  (forall id, (id0 =? id) = false -> altl id (out w') = altl id (out w)) ->
  (tainted id0 (glog w') = false ->
     (regs_of (LRec id0) w' <= 1)%nat /\ (forall a k, up_l id0 a k (out w') = stored a k w && regm id0 k w') /\ altl id0 (out w') = true) ->
  F5 w'.
Proof.
  intros [H1 H2 H3 H4] A Hr Ht Hu Ha H0. constructor.
  - rewrite A. exact H1.
  - intros id Hid. destruct (id0 =? id) eqn:E; [apply N.eqb_eq in E; subst id; apply (H0 Hid)|].
    rewrite (proj1 (Hr id E)). apply H2. rewrite <- (Ht id E). exact Hid.
  - intros id a k Hid. destruct (id0 =? id) eqn:E; [apply N.eqb_eq in E; subst id; unfold stored; rewrite A; apply (H0 Hid)|].
    rewrite (Hu id a k E). unfold stored, regm. rewrite A, (proj2 (Hr id E)). apply H3. rewrite <- (Ht id E). exact Hid.
  - intros id Hid. destruct (id0 =? id) eqn:E; [apply N.eqb_eq in E; subst id; apply (H0 Hid)|].
    rewrite (Ha id E). apply H4. rewrite <- (Ht id E). exact Hid.
Qed.

Lemma instore_stored f a k (st : store) : NoDup (map fst st) -> (forall s, fkey s k = true -> f s = f k) ->
  instore f a k (flat st) = amem key_eqb (KService k) (inner a st) && f k.
Proof.
  intros Hn Hf. rewrite <- (flat_amem a (KService k) st Hn). unfold instore.
  induction (flat st) as [|[ax kx] xs IH]; [reflexivity|]. cbn [existsb fst snd]. rewrite IH.
  destruct (ax =? a); cbn [andb orb]; [|reflexivity]. destruct kx as [s|sub]; cbn [key_eqb orb]; [|reflexivity].
  rewrite (service_eqb_sym k s). fold (fkey s k). destruct (fkey s k) eqn:Ek; cbn [orb andb].
  - rewrite (Hf s Ek). destruct (f k); cbn [orb andb]; [reflexivity|]. rewrite andb_false_r. reflexivity.
  - rewrite andb_false_r. reflexivity.
Qed.
Lemma in_flat_stored a s (st : store) : NoDup (map fst st) -> In (a, KService s) (flat st) -> amem key_eqb (KService s) (inner a st) = true.
Proof.
  intros Hn Hin. rewrite <- (flat_amem a (KService s) st Hn). apply existsb_exists. exists (a, KService s). split; [exact Hin|].
  cbn [fst snd]. rewrite N.eqb_refl, key_eqb_refl. reflexivity.
Qed.

Lemma tainted_ghost_other id i w : (i =? id) = false -> tainted id (glog (ghost (GMulti i) w)) = tainted id (glog w).
Proof. intros E. cbn [ghost glog set_glog]. unfold tainted. cbn [existsb snd]. rewrite E. reflexivity. Qed.
Lemma tainted_note_other id i w : (i =? id) = false -> tainted id (glog (note_multi (LRec i) w)) = tainted id (glog w).
Proof. intros E. unfold note_multi. destruct (Nat.eqb _ 0); [reflexivity|apply tainted_ghost_other, E]. Qed.
Lemma note_multi_frame l w : let w' := note_multi l w in
  found w' = found w /\ watched w' = watched w /\ watch_all w' = watch_all w /\ out w' = out w /\ now w' = now w.
Proof. unfold note_multi. destruct l as [i|g]; [destruct (Nat.eqb _ 0)|]; repeat split; reflexivity. Qed.
Lemma note_multi_untainted i w : tainted i (glog (note_multi (LRec i) w)) = false -> regs_of (LRec i) w = 0%nat /\ tainted i (glog w) = false.
Proof.
  unfold note_multi. destruct (Nat.eqb (regs_of (LRec i) w) 0) eqn:E; [intros H; split; [apply PeanoNat.Nat.eqb_eq, E|exact H]|].
  cbn [ghost glog set_glog]. unfold tainted. cbn [existsb snd]. rewrite N.eqb_refl. discriminate.
Qed.

Lemma occ_wget_le x f l : (occ x (wget f l) <= wsum (fun _ => true) x l)%nat.
Proof.
  unfold wget, wsum. induction l as [|[f' ls] r IH]; [apply le_n|]. cbn [aget map fst snd]. rewrite lsum_cons.
  destruct (service_eqb f f'); lia.
Qed.
Lemma tainted_fq id w w' : fq w w' -> tainted id (glog w') = tainted id (glog w).
Proof. intros Q. rewrite <- tainted_mlog, (fq_ml _ _ Q), tainted_mlog. reflexivity. Qed.
Lemma regm_zero id k w : regs_of (LRec id) w = 0%nat -> regm id k w = false.
Proof. intros H. unfold regm. pose proof (nregm_le id k w). replace (nregm id k w) with 0%nat by lia. reflexivity. Qed.
Lemma b2n_regm (b : bool) : negb (Nat.eqb (if b then 1 else 0) 0) = b. Proof. destruct b; reflexivity. Qed.

Lemma F5_watch_service X f l w0 : GP X w0 -> F5 w0 -> F5 (watch_service f l w0).
Proof.
  intros Hg H5. unfold watch_service. cbv zeta.
  destruct (note_multi_frame l w0) as (N1 & N2 & N3 & N4 & N5). cbv zeta in N1, N2, N3, N4, N5.
  set (w := note_multi l w0) in *. change (watched_get f w) with (wget f (watched w)). rewrite N2.
  set (old := wget f (watched w0)). set (v := add_listener l old).
  set (w1 := set_watched (aset service_eqb f v (watched w0)) w).
  change listener_offered with (lst true). rewrite found_iter_flat.
  assert (Hf1 : found w1 = found w0) by exact N1. rewrite Hf1.
  assert (Hsum : forall m x, (forall f', service_eqb f f' = true -> m f' = m f) ->
      (wsum m x (watched w1) + (if m f then occ x old else 0) = wsum m x (watched w0) + (if m f then occ x v else 0))%nat).
  { intros m x Hm. apply wsum_aset, Hm. }
  assert (Hall : watch_all w1 = watch_all w0) by exact N3.
  assert (Hout : out w1 = out w0) by exact N4.
  pose proof (g_keys _ _ Hg SFound) as Hk. cbn [get_store] in Hk.
  destruct l as [id0|g].
  - destruct (iter_rec true (matches_service f) id0 (flat (found w0)) w1 (distinct_flat _ (f5_addrs _ H5) Hk)) as (Q & U & A1 & A2).
    cbv zeta in Q, U, A1, A2. set (w' := fold_left _ (flat (found w0)) w1) in *.
    assert (Hv : forall id, (id0 =? id) = false -> occ (LRec id) v = occ (LRec id) old).
    { intros id E. unfold v. rewrite occ_add. cbn [listener_eqb]. rewrite (N.eqb_sym id id0), E. reflexivity. }
    apply (F5_reg_change id0 w0 w' H5).
    + rewrite (fq_found _ _ Q). exact Hf1.
    + intros id E. split; [|intros k]; rewrite ?regs_wsum, ?nregm_wsum, (fq_watched _ _ Q), (fq_all _ _ Q), Hall.
      * pose proof (Hsum (fun _ => true) (LRec id) (fun _ _ => eq_refl)) as S. cbv beta in S. rewrite (Hv id E) in S. lia.
      * pose proof (Hsum (fun flt => matches_service flt k) (LRec id) (fun f' Hf' => matches_service_cong_l f f' k Hf')) as S. cbv beta in S.
        rewrite (Hv id E) in S. lia.
    + intros id E. rewrite (tainted_fq id w1 w' Q). change (glog w1) with (glog w). apply tainted_note_other, E.
    + intros id a k E. rewrite U, E, Hout. reflexivity.
    + intros id E. rewrite (A1 id E), Hout. reflexivity.
    + intros Hid. rewrite (tainted_fq id0 w1 w' Q) in Hid. change (glog w1) with (glog w) in Hid.
      destruct (note_multi_untainted id0 w0 Hid) as [Hz Ht0].
      assert (Hold : occ (LRec id0) old = 0%nat) by (pose proof (occ_wget_le (LRec id0) f (watched w0)); rewrite regs_wsum in Hz; unfold old; lia).
      assert (Hv0 : occ (LRec id0) v = 1%nat) by (unfold v; rewrite occ_add; cbn [listener_eqb]; rewrite N.eqb_refl, Hold; reflexivity).
      assert (Hws : forall m, (forall f', service_eqb f f' = true -> m f' = m f) -> wsum m (LRec id0) (watched w1) = (if m f then 1 else 0)%nat).
      { intros m Hm. pose proof (Hsum m (LRec id0) Hm) as S. rewrite Hold, Hv0 in S. pose proof (wsum_le m (LRec id0) (watched w0)). rewrite regs_wsum in Hz. destruct (m f); lia. }
      assert (Hoa : occ (LRec id0) (watch_all w0) = 0%nat) by (rewrite regs_wsum in Hz; lia).
      split; [|split].
      * rewrite regs_wsum, (fq_watched _ _ Q), (fq_all _ _ Q), Hall, Hoa, (Hws (fun _ => true) (fun _ _ => eq_refl)). apply le_n.
      * intros a k. rewrite U, N.eqb_refl, Hout. cbn [andb].
        rewrite (instore_stored (matches_service f) a k (found w0) (f5_addrs _ H5)) by (intros s Es; apply matches_service_cong; exact Es).
        rewrite (f5_up _ H5 id0 a k Ht0), (regm_zero id0 k w0 Hz), andb_false_r.
        unfold regm. rewrite nregm_wsum, (fq_watched _ _ Q), (fq_all _ _ Q), Hall, Hoa,
          (Hws (fun flt => matches_service flt k) (fun f' Hf' => matches_service_cong_l f f' k Hf')), PeanoNat.Nat.add_0_r, b2n_regm.
        fold (stored a k w0). destruct (stored a k w0 && matches_service f k); reflexivity.
      * rewrite A2; [rewrite Hout; apply (f5_alt _ H5 id0 Ht0)|]. intros a s _ _. rewrite Hout, (f5_up _ H5 id0 a s Ht0), (regm_zero id0 s w0 Hz). apply andb_false_r.
  - destruct (iter_auto true (matches_service f) g (flat (found w0)) w1) as [Q C]. cbv zeta in Q, C.
    set (w' := fold_left _ (flat (found w0)) w1) in *.
    assert (Hv : forall id, occ (LRec id) v = occ (LRec id) old) by (intros id; unfold v; rewrite occ_add; reflexivity).
    apply (F5_frame2 w0); [rewrite (fq_found _ _ Q); exact Hf1|rewrite (fq_ml _ _ Q); reflexivity|rewrite C, Hout; reflexivity| | |exact H5].
    + intros id. rewrite !regs_wsum, (fq_watched _ _ Q), (fq_all _ _ Q), Hall.
      pose proof (Hsum (fun _ => true) (LRec id) (fun _ _ => eq_refl)) as S. cbv beta in S. rewrite (Hv id) in S. lia.
    + intros id k. rewrite !nregm_wsum, (fq_watched _ _ Q), (fq_all _ _ Q), Hall.
      pose proof (Hsum (fun flt => matches_service flt k) (LRec id) (fun f' Hf' => matches_service_cong_l f f' k Hf')) as S. cbv beta in S.
      rewrite (Hv id) in S. lia.
Qed.

Lemma F5_stop_watch_service X f l w0 : GP X w0 -> F5 w0 -> F5 (stop_watch_service f l w0).
Proof.
  intros Hg H5. unfold stop_watch_service. cbv zeta. change (watched_get f w0) with (wget f (watched w0)).
  set (old := wget f (watched w0)).
  pose proof (g_keys _ _ Hg SFound) as Hk. cbn [get_store] in Hk.
  destruct (remove_first listener_eqb l old) as [ls'|] eqn:Er.
  - set (w1 := set_watched (aset service_eqb f ls' (watched w0)) w0).
    change listener_stopped with (lst false). rewrite found_iter_flat. change (found w1) with (found w0).
    assert (Hsum : forall m x, (forall f', service_eqb f f' = true -> m f' = m f) ->
        (wsum m x (watched w1) + (if m f then occ x old else 0) = wsum m x (watched w0) + (if m f then occ x ls' else 0))%nat).
    { intros m x Hm. apply wsum_aset, Hm. }
    destruct l as [id0|g].
    + destruct (iter_rec false (matches_service f) id0 (flat (found w0)) w1 (distinct_flat _ (f5_addrs _ H5) Hk)) as (Q & U & A1 & A2).
      cbv zeta in Q, U, A1, A2. set (w' := fold_left _ (flat (found w0)) w1) in *.
      assert (Hv : forall id, occ (LRec id) old = (occ (LRec id) ls' + (if id0 =? id then 1 else 0))%nat).
      { intros id. destruct (occ_remove (LRec id) (LRec id0) old ls' Er) as (y & Hy & Ho). rewrite Ho. f_equal.
        destruct y as [i|h]; cbn [listener_eqb] in Hy |- *; [|discriminate]. apply N.eqb_eq in Hy. subst i. rewrite (N.eqb_sym id id0). reflexivity. }
      apply (F5_reg_change id0 w0 w' H5).
      * rewrite (fq_found _ _ Q). reflexivity.
      * intros id E. assert (Hv' : occ (LRec id) old = occ (LRec id) ls') by (rewrite (Hv id), E; lia).
        split; [|intros k]; rewrite ?regs_wsum, ?nregm_wsum, (fq_watched _ _ Q), (fq_all _ _ Q); change (watch_all w1) with (watch_all w0).
        -- pose proof (Hsum (fun _ => true) (LRec id) (fun _ _ => eq_refl)) as S. cbv beta in S. rewrite Hv' in S. lia.
        -- pose proof (Hsum (fun flt => matches_service flt k) (LRec id) (fun f' Hf' => matches_service_cong_l f f' k Hf')) as S. cbv beta in S.
           rewrite Hv' in S. lia.
      * intros id E. apply (tainted_fq id w1 w' Q).
      * intros id a k E. rewrite U, E. reflexivity.
      * intros id E. apply (A1 id E).
      * intros Hid. rewrite (tainted_fq id0 w1 w' Q) in Hid. change (glog w1) with (glog w0) in Hid.
        pose proof (f5_one _ H5 id0 Hid) as Hone. rewrite regs_wsum in Hone.
        pose proof (Hv id0) as Hv0. rewrite N.eqb_refl in Hv0.
        pose proof (Hsum (fun _ => true) (LRec id0) (fun _ _ => eq_refl)) as St. cbv beta in St. rewrite Hv0 in St.
        assert (Hws : forall m, (forall f', service_eqb f f' = true -> m f' = m f) ->
                  wsum m (LRec id0) (watched w1) = 0%nat /\ wsum m (LRec id0) (watched w0) = (if m f then 1 else 0)%nat).
        { intros m Hm. pose proof (Hsum m (LRec id0) Hm) as S. rewrite Hv0 in S.
          pose proof (wsum_le m (LRec id0) (watched w1)). pose proof (wsum_le m (LRec id0) (watched w0)). destruct (m f); lia. }
        assert (Hoa : occ (LRec id0) (watch_all w0) = 0%nat) by lia.
        assert (Hz' : regs_of (LRec id0) w' = 0%nat).
        { rewrite regs_wsum, (fq_watched _ _ Q), (fq_all _ _ Q). change (watch_all w1) with (watch_all w0). rewrite Hoa. lia. }
        split; [rewrite Hz'; apply le_S, le_n|split].
        -- intros a k. rewrite U, N.eqb_refl. cbn [andb]. change (out w1) with (out w0).
           rewrite (instore_stored (matches_service f) a k (found w0) (f5_addrs _ H5)) by (intros s Es; apply matches_service_cong; exact Es).
           rewrite (f5_up _ H5 id0 a k Hid), (regm_zero id0 k w' Hz'), andb_false_r.
           unfold regm at 1. rewrite nregm_wsum, Hoa, (proj2 (Hws (fun flt => matches_service flt k) (fun f' Hf' => matches_service_cong_l f f' k Hf'))), PeanoNat.Nat.add_0_r, b2n_regm.
           fold (stored a k w0). destruct (stored a k w0 && matches_service f k); reflexivity.
        -- rewrite A2; [apply (f5_alt _ H5 id0 Hid)|]. intros a s Hin Hm. change (out w1) with (out w0).
           rewrite (f5_up _ H5 id0 a s Hid). unfold stored. rewrite (in_flat_stored a s (found w0) (f5_addrs _ H5) Hin). cbn [andb negb].
           unfold regm. rewrite nregm_wsum, Hoa, (proj2 (Hws (fun flt => matches_service flt s) (fun f' Hf' => matches_service_cong_l f f' s Hf'))), PeanoNat.Nat.add_0_r, b2n_regm. exact Hm.
    + destruct (iter_auto false (matches_service f) g (flat (found w0)) w1) as [Q C]. cbv zeta in Q, C.
      set (w' := fold_left _ (flat (found w0)) w1) in *.
      assert (Hv : forall id, occ (LRec id) old = occ (LRec id) ls').
      { intros id. destruct (occ_remove (LRec id) (LAuto g) old ls' Er) as (y & Hy & Ho). rewrite Ho.
        destruct y as [i|h]; cbn [listener_eqb] in Hy |- *; [discriminate|]. lia. }
      apply (F5_frame2 w0); [rewrite (fq_found _ _ Q); reflexivity|rewrite (fq_ml _ _ Q); reflexivity|rewrite C; reflexivity| | |exact H5].
      * intros id. rewrite !regs_wsum, (fq_watched _ _ Q), (fq_all _ _ Q). change (watch_all w1) with (watch_all w0).
        pose proof (Hsum (fun _ => true) (LRec id) (fun _ _ => eq_refl)) as S. cbv beta in S. rewrite (Hv id) in S. lia.
      * intros id k. rewrite !nregm_wsum, (fq_watched _ _ Q), (fq_all _ _ Q). change (watch_all w1) with (watch_all w0).
        pose proof (Hsum (fun flt => matches_service flt k) (LRec id) (fun f' Hf' => matches_service_cong_l f f' k Hf')) as S. cbv beta in S.
        rewrite (Hv id) in S. lia.
  - (* KeyError: the defaultdict access created the key, nothing else happened *)
    set (w1 := set_watched (aset service_eqb f old (watched w0)) w0).
    assert (Hsum : forall m x, (forall f', service_eqb f f' = true -> m f' = m f) -> wsum m x (watched w1) = wsum m x (watched w0)).
    { intros m x Hm. pose proof (wsum_aset m x f old (watched w0) Hm) as S. fold old in S. change (aset service_eqb f old (watched w0)) with (watched w1) in S. lia. }
    apply (F5_frame2 w0); try reflexivity; [| |exact H5].
    + intros id. rewrite !regs_wsum. cbn [emit watched watch_all set_out]. change (watch_all w1) with (watch_all w0).
      rewrite (Hsum (fun _ => true) (LRec id) (fun _ _ => eq_refl)). reflexivity.
    + intros id k. rewrite !nregm_wsum. cbn [emit watched watch_all set_out]. change (watch_all w1) with (watch_all w0).
      rewrite (Hsum (fun flt => matches_service flt k) (LRec id) (fun f' Hf' => matches_service_cong_l f f' k Hf')). reflexivity.
Qed.

Lemma F5_watch_all_services X l w0 : GP X w0 -> F5 w0 -> F5 (watch_all_services l w0).
Proof.
  intros Hg H5. unfold watch_all_services. cbv zeta.
  destruct (note_multi_frame l w0) as (N1 & N2 & N3 & N4 & N5). cbv zeta in N1, N2, N3, N4, N5.
  set (w := note_multi l w0) in *. rewrite N3.
  set (v := add_listener l (watch_all w0)). set (w1 := set_watch_all v w).
  change listener_offered with (lst true). rewrite found_iter_flat.
  assert (Hf1 : found w1 = found w0) by exact N1. rewrite Hf1.
  assert (Hw : watched w1 = watched w0) by exact N2.
  assert (Hout : out w1 = out w0) by exact N4.
  pose proof (g_keys _ _ Hg SFound) as Hk. cbn [get_store] in Hk.
  destruct l as [id0|g].
  - destruct (iter_rec true (fun _ => true) id0 (flat (found w0)) w1 (distinct_flat _ (f5_addrs _ H5) Hk)) as (Q & U & A1 & A2).
    cbv zeta in Q, U, A1, A2. set (w' := fold_left _ (flat (found w0)) w1) in *.
    assert (Hv : forall id, (id0 =? id) = false -> occ (LRec id) v = occ (LRec id) (watch_all w0)).
    { intros id E. unfold v. rewrite occ_add. cbn [listener_eqb]. rewrite (N.eqb_sym id id0), E. reflexivity. }
    apply (F5_reg_change id0 w0 w' H5).
    + rewrite (fq_found _ _ Q). exact Hf1.
    + intros id E. split; [|intros k]; rewrite ?regs_wsum, ?nregm_wsum, (fq_watched _ _ Q), (fq_all _ _ Q), Hw; change (watch_all w1) with v; rewrite (Hv id E); reflexivity.
    + intros id E. rewrite (tainted_fq id w1 w' Q). change (glog w1) with (glog w). apply tainted_note_other, E.
    + intros id a k E. rewrite U, E, Hout. reflexivity.
    + intros id E. rewrite (A1 id E), Hout. reflexivity.
    + intros Hid. rewrite (tainted_fq id0 w1 w' Q) in Hid. change (glog w1) with (glog w) in Hid.
      destruct (note_multi_untainted id0 w0 Hid) as [Hz Ht0]. pose proof Hz as Hz2. rewrite regs_wsum in Hz2.
      assert (Hv0 : occ (LRec id0) v = 1%nat).
      { unfold v. rewrite occ_add. cbn [listener_eqb]. rewrite N.eqb_refl. replace (occ (LRec id0) (watch_all w0)) with 0%nat by lia. reflexivity. }
      split; [|split].
      * rewrite regs_wsum, (fq_watched _ _ Q), (fq_all _ _ Q), Hw. change (watch_all w1) with v. rewrite Hv0. lia.
      * intros a k. rewrite U, N.eqb_refl, Hout. cbn [andb].
        rewrite (instore_stored (fun _ => true) a k (found w0) (f5_addrs _ H5)) by reflexivity.
        rewrite (f5_up _ H5 id0 a k Ht0), (regm_zero id0 k w0 Hz), !andb_false_r, andb_true_r.
        assert (Hr : regm id0 k w' = true).
        { unfold regm. rewrite nregm_wsum, (fq_watched _ _ Q), (fq_all _ _ Q), Hw. change (watch_all w1) with v. rewrite Hv0.
          pose proof (wsum_le (fun flt => matches_service flt k) (LRec id0) (watched w0)).
          replace (wsum (fun flt => matches_service flt k) (LRec id0) (watched w0)) with 0%nat by lia. reflexivity. }
        rewrite Hr, andb_true_r. fold (stored a k w0). destruct (stored a k w0); reflexivity.
      * rewrite A2; [rewrite Hout; apply (f5_alt _ H5 id0 Ht0)|]. intros a s _ _. rewrite Hout, (f5_up _ H5 id0 a s Ht0), (regm_zero id0 s w0 Hz). apply andb_false_r.
  - destruct (iter_auto true (fun _ => true) g (flat (found w0)) w1) as [Q C]. cbv zeta in Q, C.
    set (w' := fold_left _ (flat (found w0)) w1) in *.
    assert (Hv : forall id, occ (LRec id) v = occ (LRec id) (watch_all w0)) by (intros id; unfold v; rewrite occ_add; reflexivity).
    apply (F5_frame2 w0); [rewrite (fq_found _ _ Q); exact Hf1|rewrite (fq_ml _ _ Q); reflexivity|rewrite C, Hout; reflexivity| | |exact H5].
    + intros id. rewrite !regs_wsum, (fq_watched _ _ Q), (fq_all _ _ Q), Hw. change (watch_all w1) with v. rewrite (Hv id). reflexivity.
    + intros id k. rewrite !nregm_wsum, (fq_watched _ _ Q), (fq_all _ _ Q), Hw. change (watch_all w1) with v. rewrite (Hv id). reflexivity.
Qed.

Lemma F5_stop_watch_all_services X l w0 : GP X w0 -> F5 w0 -> F5 (stop_watch_all_services l w0).
Proof.
  intros Hg H5. unfold stop_watch_all_services.
  pose proof (g_keys _ _ Hg SFound) as Hk. cbn [get_store] in Hk.
  destruct (remove_first listener_eqb l (watch_all w0)) as [ls'|] eqn:Er; [|apply (F5_fx w0); [apply fx_emit; reflexivity|exact H5]].
  set (w1 := set_watch_all ls' w0). change listener_stopped with (lst false). rewrite found_iter_flat. change (found w1) with (found w0).
  destruct l as [id0|g].
  - destruct (iter_rec false (fun _ => true) id0 (flat (found w0)) w1 (distinct_flat _ (f5_addrs _ H5) Hk)) as (Q & U & A1 & A2).
    cbv zeta in Q, U, A1, A2. set (w' := fold_left _ (flat (found w0)) w1) in *.
    assert (Hv : forall id, occ (LRec id) (watch_all w0) = (occ (LRec id) ls' + (if id0 =? id then 1 else 0))%nat).
    { intros id. destruct (occ_remove (LRec id) (LRec id0) (watch_all w0) ls' Er) as (y & Hy & Ho). rewrite Ho. f_equal.
      destruct y as [i|h]; cbn [listener_eqb] in Hy |- *; [|discriminate]. apply N.eqb_eq in Hy. subst i. rewrite (N.eqb_sym id id0). reflexivity. }
    apply (F5_reg_change id0 w0 w' H5).
    + rewrite (fq_found _ _ Q). reflexivity.
    + intros id E. assert (Hv' : occ (LRec id) (watch_all w0) = occ (LRec id) ls') by (rewrite (Hv id), E; lia).
      split; [|intros k]; rewrite ?regs_wsum, ?nregm_wsum, (fq_watched _ _ Q), (fq_all _ _ Q); change (watch_all w1) with ls'; change (watched w1) with (watched w0); rewrite Hv'; reflexivity.
    + intros id E. apply (tainted_fq id w1 w' Q).
    + intros id a k E. rewrite U, E. reflexivity.
    + intros id E. apply (A1 id E).
    + intros Hid. rewrite (tainted_fq id0 w1 w' Q) in Hid. change (glog w1) with (glog w0) in Hid.
      pose proof (f5_one _ H5 id0 Hid) as Hone. rewrite regs_wsum in Hone.
      pose proof (Hv id0) as Hv0. rewrite N.eqb_refl in Hv0.
      assert (Hz' : regs_of (LRec id0) w' = 0%nat).
      { rewrite regs_wsum, (fq_watched _ _ Q), (fq_all _ _ Q). change (watch_all w1) with ls'. change (watched w1) with (watched w0). lia. }
      assert (Hr0 : forall k, regm id0 k w0 = true).
      { intros k. unfold regm. rewrite nregm_wsum. apply negb_true_iff, PeanoNat.Nat.eqb_neq. lia. }
      split; [rewrite Hz'; apply le_S, le_n|split].
      * intros a k. rewrite U, N.eqb_refl. cbn [andb]. change (out w1) with (out w0).
        rewrite (instore_stored (fun _ => true) a k (found w0) (f5_addrs _ H5)) by reflexivity.
        rewrite (f5_up _ H5 id0 a k Hid), (regm_zero id0 k w' Hz'), (Hr0 k), !andb_true_r, andb_false_r.
        fold (stored a k w0). destruct (stored a k w0); reflexivity.
      * rewrite A2; [apply (f5_alt _ H5 id0 Hid)|]. intros a s Hin _. change (out w1) with (out w0).
        rewrite (f5_up _ H5 id0 a s Hid), (Hr0 s). unfold stored. rewrite (in_flat_stored a s (found w0) (f5_addrs _ H5) Hin). reflexivity.
  - destruct (iter_auto false (fun _ => true) g (flat (found w0)) w1) as [Q C]. cbv zeta in Q, C.
    set (w' := fold_left _ (flat (found w0)) w1) in *.
    assert (Hv : forall id, occ (LRec id) (watch_all w0) = occ (LRec id) ls').
    { intros id. destruct (occ_remove (LRec id) (LAuto g) (watch_all w0) ls' Er) as (y & Hy & Ho). rewrite Ho.
      destruct y as [i|h]; cbn [listener_eqb] in Hy |- *; [discriminate|]. lia. }
    apply (F5_frame2 w0); [rewrite (fq_found _ _ Q); reflexivity|rewrite (fq_ml _ _ Q); reflexivity|rewrite C; reflexivity| | |exact H5].
    + intros id. rewrite !regs_wsum, (fq_watched _ _ Q), (fq_all _ _ Q). change (watch_all w1) with ls'. change (watched w1) with (watched w0). rewrite (Hv id). reflexivity.
    + intros id k. rewrite !nregm_wsum, (fq_watched _ _ Q), (fq_all _ _ Q). change (watch_all w1) with ls'. change (watched w1) with (watched w0). rewrite (Hv id). reflexivity.
Qed.

(* ------------------------------------------------------------------ lifted through every protocol function *)
Definition GGF (X : list (N * handle)) (w : world) : Prop := GG X w /\ F5 w.
Definition kkF (f : world -> world) : Prop := forall X w, GGF X w -> GGF X (f w).

Lemma GGF_same5 X w w' : same5 w w' -> GGF X w -> GGF X w'.
Proof. intros [Hs Hx] [Hg H5]. split; [eapply GG_same; eauto|eapply F5_fx; eauto]. Qed.
Lemma kkF_of f : kk f -> (forall w, fx w (f w)) -> kkF f.
Proof. intros H1 H2 X w [Hg H5]. split; [apply H1; exact Hg|eapply F5_fx; [apply H2|exact H5]]. Qed.

Theorem kkF_exec h : soon_ok h = true -> kkF (exec h).
Proof.
  refine (Lift5.kk_exec GGF GGF_same5 _ _ _ _ _ _ _ _ _ _ _ _ _ _ _ h).
  - intros d h0 Hs. apply kkF_of; [apply kk_call_later; exact (proj1 (andb_prop _ _ Hs))|intros w; apply fx_call_later].
  - intros st a k X w [Hg H5]. split; [apply kk_store_stop; exact Hg|].
    destruct st as [|i]; [eapply F5_store_stop_found; [exact (proj1 Hg)|exact H5]|eapply F5_fx; [apply fx_store_stop_subs|exact H5]].
  - intros st a X w [Hg H5]. split; [apply kk_store_stop_all_for_address; exact Hg|].
    destruct st as [|i]; [eapply F5_store_stop_all_for_address_found; [exact (proj1 Hg)|exact H5]|eapply F5_fx; [apply fx_store_stop_all_for_address_subs|exact H5]].
  - intros st X w [Hg H5]. split; [apply kk_store_stop_all; exact Hg|].
    destruct st as [|i]; [eapply F5_store_stop_all_found; [exact (proj1 Hg)|exact H5]|eapply F5_fx; [apply fx_store_stop_all_subs|exact H5]].
  - intros X st ttl a k w [Hg H5] Hh. split; [apply kk_store_refresh; assumption|].
    destruct st as [|i]; [eapply F5_store_refresh_found; [exact (proj1 Hg)|exact H5]|eapply F5_fx; [apply fx_store_refresh_subs|exact H5]].
  - intros k. apply kkF_of; [apply kk_new_task|intros w; apply fx_new_task].
  - intros t. apply kkF_of; [apply kk_finish_task|intros w; apply fx_finish_task].
  - intros t k d pc i. apply kkF_of; [apply kk_task_sleep|intros w; apply fx_task_sleep].
  - intros t. apply kkF_of; [apply kk_cancel_task|intros w; apply fx_cancel_task].
  - intros t. apply kkF_of; [apply kk_sleep_done|intros w; apply fx_sleep_done].
  - intros e d. apply kkF_of; [apply kk_queue_send|intros w; apply fx_queue_send].
  - intros f l X w [Hg H5]. split; [eapply GG_same; [apply n_watch_service|exact Hg]|eapply F5_watch_service; [exact (proj1 Hg)|exact H5]].
  - intros f l X w [Hg H5]. split; [eapply GG_same; [apply n_stop_watch_service|exact Hg]|eapply F5_stop_watch_service; [exact (proj1 Hg)|exact H5]].
  - intros l X w [Hg H5]. split; [eapply GG_same; [apply n_watch_all_services|exact Hg]|eapply F5_watch_all_services; [exact (proj1 Hg)|exact H5]].
  - intros l X w [Hg H5]. split; [eapply GG_same; [apply n_stop_watch_all_services|exact Hg]|eapply F5_stop_watch_all_services; [exact (proj1 Hg)|exact H5]].
Qed.

(* ------------------------------------------------------------------ the loop *)
Lemma fx_of w w' : found w' = found w -> watched w' = watched w -> watch_all w' = watch_all w -> out w' = out w -> glog w' = glog w -> fx w w'.
Proof. intros A B C D E. constructor; congruence. Qed.

Theorem GGF_lstep1 w : GGF [] w -> GGF [] (lstep1 w).
Proof.
  intros [Hgg H5]. split; [apply GG_lstep1; exact Hgg|].
  destruct Hgg as [Hg H2]. unfold lstep1. destruct (ready w) as [|[[tid|] h] r] eqn:Hr; [exact H5| |].
  - cbv zeta. assert (H5p : F5 (set_ready r w)) by (apply (F5_fx w); [apply fx_of; reflexivity|exact H5]).
    destruct (is_cancelled tid (set_ready r w)) eqn:Ec; [exact H5p|].
    assert (Hp : GP [(tid, h)] (set_ready r w)) by (apply pop_GP; assumption).
    destruct (soon_ok h) eqn:Es.
    + refine (proj2 (kkF_exec h Es [(tid, h)] (set_ready r w) _)). split; [split; [exact Hp|eapply G2_pop; eauto]|exact H5p].
    + destruct h; try discriminate; cbn [exec].
      * destruct st as [|i]; [eapply F5_store_expired_found; [exact Hp|exact H5p]|eapply F5_fx; [apply fx_store_expired_subs|exact H5p]].
      * eapply F5_fx; [apply fx_collector_timeout|exact H5p].
  - cbv zeta. assert (H5p : F5 (set_ready r w)) by (apply (F5_fx w); [apply fx_of; reflexivity|exact H5]).
    assert (En : notexp_b h = true).
    { destruct H2 as [_ Hne]. unfold ne_ready in Hne. rewrite Hr in Hne. cbn [forallb fst snd] in Hne. apply andb_true_iff in Hne. tauto. }
    assert (Hp : GP [] (set_ready r w)).
    { apply (same_G_weak _ w); [|exact Hg]. unfold tided, tmr, rdy. cbn [ready set_ready timers]. rewrite Hr. reflexivity. }
    destruct (nocoll_b h) eqn:Ec.
    + refine (proj2 (kkF_exec h _ [] (set_ready r w) _)); [unfold soon_ok; rewrite En, Ec; reflexivity|].
      split; [split; [exact Hp|eapply G2_pop; eauto]|exact H5p].
    + destruct h; try discriminate. cbn [exec]. eapply F5_fx; [apply fx_collector_timeout|exact H5p].
Qed.

Lemma GGF_run_ready : forall n w, GGF [] w -> GGF [] (run_ready n w).
Proof. induction n as [|n IH]; intros w Hg; [exact Hg|]. rewrite run_ready_step. apply IH, GGF_lstep1, Hg. Qed.

Lemma fx_arrivals : forall hs w, fx w (fold_left (fun acc h => call_soon h acc) hs w).
Proof. induction hs as [|h hs IH]; intros w; cbn [fold_left]; [apply fx_refl|]. eapply fx_trans; [|apply IH]. apply fx_call_soon. Qed.

Theorem GGF_iteration arrivals rv w : all_notexp arrivals -> GGF [] w -> GGF [] (iteration arrivals rv w).
Proof.
  intros Ha [Hg H5]. rewrite iteration_pre. apply GGF_run_ready. split; [apply GG_iter_pre; assumption|].
  eapply F5_fx; [|exact H5]. unfold iter_pre. cbv zeta. eapply fx_trans; [apply fx_arrivals|]. apply fx_of; reflexivity.
Qed.

Theorem GGF_run : forall fuel events t_end rv w, Forall (fun e => soon_ok (snd e) = true) events -> GGF [] w ->
  GGF [] (fst (run fuel events t_end rv w)).
Proof.
  induction fuel as [|f IH]; intros events t_end rv w Hev Hg; cbn [run fst]; [exact Hg|].
  destruct (split_arrived (now w) events) as [arrived later] eqn:Es.
  destruct (split_arrived_notexp _ _ _ _ Hev Es) as [Ha Hl].
  set (dn := match next_timer w with Some t => t <=? now w | None => false end).
  destruct (ready w) as [|x r] eqn:Er; [destruct arrived as [|a ar]; [destruct dn|]|];
    try (apply IH; [exact Hl|]; apply GGF_iteration; [exact Ha|exact Hg]).
  destruct (omin _ _) as [t|]; [|exact Hg]. destruct (t_end <? t); [exact Hg|].
  apply IH; [exact Hev|]. destruct Hg as [[A [B Cc]] D6]. split; [split; [apply GP_set_now; exact A|split; [exact B|exact Cc]]|].
  eapply F5_fx; [|exact D6]. apply fx_of; reflexivity.
Qed.

Lemma F5_empty now0 c ins dr :
  F5 (mkWorld now0 [] [] [] 1 c sess_init false None [] [] [] [] None false [] ins [] [] [] dr [] []).
Proof. constructor; [constructor|intros id _; apply le_0_n|intros id a k _; reflexivity|intros id _; reflexivity]. Qed.

(* in every reachable state of every scenario *)
Theorem GGF_reachable s sc : d_scenario s = Some sc -> GGF [] (fst (run_scenario sc)).
Proof.
  intros Hd. unfold run_scenario.
  destruct s as [| |l]; try discriminate. cbn [d_scenario] in Hd.
  destruct l as [|c [|ins [|dr [|ev [|[te| |] [|rv [|[fu| |] [|]]]]]]]]; try discriminate.
  destruct (d_timings c); cbn [obind] in Hd; [|discriminate].
  destruct (dlist d_inst ins) as [ins'|] eqn:Ei; cbn [obind] in Hd; [|discriminate].
  destruct (dlist dN dr); cbn [obind] in Hd; [|discriminate].
  destruct (dlist d_event_in ev) as [evs|] eqn:Ee; cbn [obind] in Hd; [|discriminate].
  destruct (dbool rv); cbn [obind] in Hd; [|discriminate]. injection Hd as <-. cbn [sc_events sc_end sc_rev sc_fuel].
  apply GGF_run.
  - unfold dlist in Ee. destruct (dL ev); cbn [obind] in Ee; [|discriminate]. eapply dmap_event_notexp; eauto.
  - unfold init_world. cbn [sc_cfg sc_insts sc_draws].
    assert (Hf : fresh_insts ins') by (unfold dlist in Ei; destruct (dL ins); cbn [obind] in Ei; [|discriminate]; eapply dmap_inst_fresh; eauto).
    split; [apply GG_empty; exact Hf|apply F5_empty].
Qed.

(* ------------------------------------------------------------------ what it says, for users *)
Theorem reachable_discovery_truthful s sc : d_scenario s = Some sc ->
  let w := fst (run_scenario sc) in
  forall id, tainted id (glog w) = false ->
    (forall a k, up_l id a k (out w) = stored a k w && regm id k w) /\ altl id (out w) = true.
Proof. intros Hd w id Hid. destruct (proj2 (GGF_reachable s sc Hd)) as [_ _ U A]. split; [intros a k; apply U, Hid|apply A, Hid]. Qed.

(* a StopOffer withdraws the stored offer whether or not anybody is watching (finding F17 at the level of the model) *)
Theorem stop_offer_withdraws X e a s w : GP X w -> from_offer_entry e = Ok s -> e_ttl e = 0 ->
  forall k, fkey s k = true -> stored a k (handle_offer e a w) = false.
Proof.
  intros Hg He Ht k Ek. unfold handle_offer. rewrite He, Ht. cbn [N.eqb].
  pose proof (g_keys _ _ Hg SFound a) as Hnd. cbn [get_store] in Hnd.
  unfold store_stop. cbn [get_store]. rewrite inner_touch. unfold stored.
  destruct (aget key_eqb (KService s) (inner a (found w))) as [old|] eqn:Ea.
  - rewrite found_store_callback.
    assert (Hf : found (cancel_opt old (put_store SFound (aset N.eqb a (adel key_eqb (KService s) (inner a (found w))) (touch a (found w))) w))
                 = aset N.eqb a (adel key_eqb (KService s) (inner a (found w))) (touch a (found w))) by (destruct old; reflexivity).
    rewrite Hf, stored_removed by exact Hnd. rewrite N.eqb_refl, Ek. reflexivity.
  - cbn [put_store found set_found]. rewrite inner_touch. rewrite <- (amem_cong (KService s) (KService k) _ Ek). unfold amem. rewrite Ea. reflexivity.
Qed.

(* ------------------------------------------------------------------ building blocks of convergence (C04): what a received Offer does *)
(* an Offer (TTL > 0) for a watched service is recorded, whatever was stored before ... *)
Theorem offer_recorded X e a s w : GP X w -> F5 w -> from_offer_entry e = Ok s -> (e_ttl e =? 0) = false -> is_watching e w = true ->
  forall k, fkey s k = true -> stored a k (handle_offer e a w) = true.
Proof.
  intros Hg H5 He Ht Hw k Ek. unfold handle_offer. rewrite He, Ht, Hw. cbn [negb].
  pose proof (g_keys _ _ Hg SFound a) as Hnd. cbn [get_store] in Hnd.
  rewrite store_refresh_unfold. cbv zeta. cbn [get_store]. rewrite inner_touch.
  destruct (aget key_eqb (KService s) (inner a (found w))) as [old|] eqn:Ea.
  - set (w1 := cancel_opt old (put_store SFound (aset N.eqb a (adel key_eqb (KService s) (inner a (found w))) (touch a (found w))) w)).
    assert (W5 : found w1 = aset N.eqb a (adel key_eqb (KService s) (inner a (found w))) (touch a (found w))) by (unfold w1; destruct old; reflexivity).
    destruct (tail_stored (e_ttl e) a (KService s) w1) as [_ N2].
    { rewrite W5, inner_aset, N.eqb_refl. apply nodupE_adel, Hnd. }
    { rewrite W5. apply nodup_aset_found, nodup_touch, (f5_addrs _ H5). }
    cbv zeta in N2. rewrite N2, N.eqb_refl. cbn [key_eqb]. fold (fkey s k). rewrite Ek. apply orb_true_r.
  - change listener_offered with (lst true). destruct (notify_spec true s a (put_store SFound (touch a (found w)) w)) as [Q _]. cbv zeta in Q.
    set (w1 := notify_service (lst true) s a (put_store SFound (touch a (found w)) w)) in *.
    assert (Hf1 : found w1 = touch a (found w)) by (rewrite (fq_found _ _ Q); reflexivity).
    destruct (tail_stored (e_ttl e) a (KService s) w1) as [_ N2].
    { rewrite Hf1, inner_touch. exact Hnd. }
    { rewrite Hf1. apply nodup_touch, (f5_addrs _ H5). }
    cbv zeta in N2. rewrite N2, N.eqb_refl. cbn [key_eqb]. fold (fkey s k). rewrite Ek. apply orb_true_r.
Qed.
(* ... and every recording listener registered for it (inside the domain) then has "offered" as its latest notification *)
Theorem offer_reported X e a s w : GP X w -> F5 w -> from_offer_entry e = Ok s -> (e_ttl e =? 0) = false -> is_watching e w = true ->
  forall id, tainted id (glog (handle_offer e a w)) = false -> regm id s (handle_offer e a w) = true ->
  up_l id a s (out (handle_offer e a w)) = true.
Proof.
  intros Hg H5 He Ht Hw id Hid Hr.
  assert (F : F5 (handle_offer e a w)).
  { unfold handle_offer. rewrite He, Ht, Hw. cbn [negb]. eapply F5_store_refresh_found; eauto. }
  rewrite (f5_up _ F id a s Hid), Hr, (offer_recorded X e a s w Hg H5 He Ht Hw s (fkey_refl s)). reflexivity.
Qed.

(* ------------------------------------------------------------------ convergence step: a NEW offer makes the auto-subscribe listener subscribe *)
Lemma sub_entries_lst off l s a w x : In x (sub_entries w) -> off = true -> In x (sub_entries (lst off l s a w)).
Proof.
  intros Hin ->. destruct l as [id|g]; cbn [lst listener_offered]; [exact Hin|].
  destruct (for_service g s) as [g'|]; [|exact Hin]. unfold subscribe_eventgroup, subscribe_core, note_dup.
  destruct (requested _ _ _); destruct (sub_alive _); cbn [call_soon sub_entries set_ready set_sub_entries]; apply in_app_iff; left; exact Hin.
Qed.
Lemma sub_entries_lst_adds g g' s a w : for_service g s = Some g' -> In (g', a) (sub_entries (lst true (LAuto g) s a w)).
Proof.
  intros Hf. cbn [lst listener_offered]. rewrite Hf. unfold subscribe_eventgroup, subscribe_core, note_dup.
  destruct (requested _ _ _); destruct (sub_alive _); cbn [call_soon sub_entries set_ready set_sub_entries]; apply in_app_iff; right; left; reflexivity.
Qed.
Lemma sub_entries_fold s a x : forall ls w, In x (sub_entries w) -> In x (sub_entries (fold_left (fun acc l => lst true l s a acc) ls w)).
Proof. induction ls as [|l ls IH]; intros w Hin; cbn [fold_left]; [exact Hin|]. apply IH. apply sub_entries_lst; [exact Hin|reflexivity]. Qed.
Lemma sub_entries_fold_adds g g' s a : for_service g s = Some g' -> forall ls w, In (LAuto g) ls ->
  In (g', a) (sub_entries (fold_left (fun acc l => lst true l s a acc) ls w)).
Proof.
  intros Hf. induction ls as [|l ls IH]; intros w Hin; [destruct Hin|]. cbn [fold_left]. destruct Hin as [->|Hin].
  - apply sub_entries_fold. apply sub_entries_lst_adds. exact Hf.
  - apply IH, Hin.
Qed.
Lemma notify_offered_subscribes g g' s a f ls w : for_service g s = Some g' ->
  In (f, ls) (watched w) -> matches_service f s = true -> In (LAuto g) ls ->
  In (g', a) (sub_entries (notify_service (lst true) s a w)).
Proof.
  intros Hf Hin Hm Hl. unfold notify_service.
  assert (H1 : forall l acc, (In (f, ls) l \/ In (g', a) (sub_entries acc)) ->
             In (g', a) (sub_entries (fold_left (fun acc0 p => if matches_service (fst p) s then fold_left (fun acc2 l0 => lst true l0 s a acc2) (snd p) acc0 else acc0) l acc))).
  { induction l as [|p l IH]; intros acc H; cbn [fold_left]; [destruct H as [[]|H]; exact H|]. apply IH.
    destruct H as [[->|H]|H].
    - right. cbn [fst snd]. rewrite Hm. apply (sub_entries_fold_adds g g' s a Hf). exact Hl.
    - left. exact H.
    - right. destruct (matches_service (fst p) s); [apply sub_entries_fold; exact H|exact H]. }
  apply sub_entries_fold. apply H1. left. exact Hin.
Qed.
(* an Offer (TTL > 0) for a service not yet stored from that source, with an auto-subscribe listener registered for it:
   afterwards the client subscriber holds the subscription entry for (eventgroup, source) - the next round (or the
   HSendStartSub queued at once when the subscriber is running) sends the Subscribe *)
Theorem new_offer_subscribes e a s w g g' f ls : from_offer_entry e = Ok s -> (e_ttl e =? 0) = false -> is_watching e w = true ->
  aget key_eqb (KService s) (inner a (found w)) = None ->
  for_service g s = Some g' -> In (f, ls) (watched w) -> matches_service f s = true -> In (LAuto g) ls ->
  In (g', a) (sub_entries (handle_offer e a w)).
Proof.
  intros He Ht Hw Hn Hf Hin Hm Hl. unfold handle_offer. rewrite He, Ht, Hw. cbn [negb].
  rewrite store_refresh_unfold. cbv zeta. cbn [get_store]. rewrite inner_touch, Hn.
  change listener_offered with (lst true).
  set (w1 := notify_service (lst true) s a (put_store SFound (touch a (found w)) w)).
  assert (H1 : In (g', a) (sub_entries w1)) by (unfold w1; eapply notify_offered_subscribes; eauto).
  unfold refresh_tail. cbv zeta. destruct (e_ttl e =? TTL_FOREVER); cbn [fst]; [exact H1|].
  unfold call_later. cbn [fst]. exact H1.
Qed.
