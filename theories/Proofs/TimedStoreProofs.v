(* C09: the TimedStore algorithm as an abstract machine over (entries, live timers): every live expiry
   timer is owned by the entry currently stored under its key, for every sequence of refresh / stop /
   remove-all-for-address / remove-all / timer firing.  Hence a timer that belonged to a removed or
   refreshed entry does not exist and cannot remove a successor; an entry with the infinite TTL owns none.
   The machine mirrors Model/Stack.v store_refresh / store_stop / store_stop_all_for_address /
   store_stop_all / store_expired on the projection (flattened store, non-cancelled HExpired timers). *)
From PS Require Import Lib.Base Model.SdTypes Model.Config Model.Session Model.StackTypes Proofs.AListFacts.
From Coq Require Import Lia.

Section Machine.
  Context {K : Type} (keqb : K -> K -> bool).
  Hypothesis keqb_eq : forall a b, keqb a b = true <-> a = b.

  Record ts := mkTs { t_entries : list (K * option N); t_live : list (N * K); t_next : N }.

  Definition drop_timer (o : option N) (live : list (N * K)) : list (N * K) :=
    match o with Some tid => filter (fun p => negb (fst p =? tid)) live | None => live end.

  (* refresh(ttl, key): pop + cancel the old timer, arm a new one unless the TTL is infinite, re-insert *)
  Definition m_refresh (k : K) (finite : bool) (s : ts) : ts :=
    let live := match aget keqb k (t_entries s) with Some o => drop_timer o (t_live s) | None => t_live s end in
    let e := adel keqb k (t_entries s) in
    if finite then mkTs (e ++ [(k, Some (t_next s))]) (live ++ [(t_next s, k)]) (t_next s + 1)
    else mkTs (e ++ [(k, None)]) live (t_next s).

  (* stop(key) *)
  Definition m_stop (k : K) (s : ts) : ts :=
    match aget keqb k (t_entries s) with
    | None => s
    | Some o => mkTs (adel keqb k (t_entries s)) (drop_timer o (t_live s)) (t_next s)
    end.

  (* stop_all_for_address / stop_all: stop every key selected by p *)
  Definition m_stop_where (p : K -> bool) (s : ts) : ts :=
    fold_left (fun acc k => m_stop k acc) (filter p (map fst (t_entries s))) s.

  (* the loop fires live timer tid: _expired(key) pops whatever entry is stored under the key *)
  Definition m_fire (tid : N) (s : ts) : ts :=
    match aget N.eqb tid (t_live s) with
    | None => s
    | Some k =>
        let live := filter (fun p => negb (fst p =? tid)) (t_live s) in
        match aget keqb k (t_entries s) with
        | None => mkTs (t_entries s) live (t_next s)
        | Some _ => mkTs (adel keqb k (t_entries s)) live (t_next s)
        end
    end.

  Inductive op := ORefresh (k : K) (finite : bool) | OStop (k : K) | OStopWhere (p : K -> bool) | OFire (tid : N).
  Definition step (s : ts) (o : op) : ts :=
    match o with
    | ORefresh k f => m_refresh k f s
    | OStop k => m_stop k s
    | OStopWhere p => m_stop_where p s
    | OFire tid => m_fire tid s
    end.

  Definition Inv (s : ts) : Prop :=
    NoDup (map fst (t_entries s))
    /\ (forall k tid, In (k, Some tid) (t_entries s) <-> In (tid, k) (t_live s))
    /\ NoDup (map fst (t_live s))
    /\ (forall tid k, In (tid, k) (t_live s) -> tid < t_next s).

  Lemma aget_in (k : K) (l : list (K * option N)) v : NoDup (map fst l) -> (aget keqb k l = Some v <-> In (k, v) l).
  Proof.
    induction l as [|[k' v'] l IH]; intros Hnd; cbn [aget In]; [split; [discriminate|tauto]|].
    inversion Hnd as [|? ? Hni Hnd']; subst. destruct (keqb k k') eqn:E.
    - apply keqb_eq in E. subst k'. split; [intros H; injection H as <-; left; reflexivity|].
      intros [H|H]; [injection H as <-; reflexivity|]. exfalso. apply Hni. apply (in_map fst) in H. exact H.
    - rewrite (IH Hnd'). split; [tauto|]. intros [H|H]; [|exact H]. injection H as <- _.
      rewrite (eqb_refl keqb keqb_eq) in E. discriminate.
  Qed.

  Lemma in_adel (k k' : K) v (l : list (K * option N)) :
    NoDup (map fst l) -> (In (k', v) (adel keqb k l) <-> In (k', v) l /\ k' <> k).
  Proof.
    induction l as [|[k2 v2] l IH]; intros Hnd; cbn [adel In]; [tauto|].
    inversion Hnd as [|? ? Hni Hnd']; subst. destruct (keqb k k2) eqn:E.
    - apply keqb_eq in E. subst k2. split.
      + intros H. split; [right; exact H|]. intros ->. apply Hni. apply (in_map fst) in H. exact H.
      + intros [[H|H] Hne]; [injection H as -> _; congruence|exact H].
    - cbn [In]. rewrite (IH Hnd'). split.
      + intros [H|[H Hne]]; [|tauto]. injection H as <- <-. split; [left; reflexivity|].
        intros ->. rewrite (eqb_refl keqb keqb_eq) in E. discriminate.
      + intros [[H|H] Hne]; [left; exact H|right; tauto].
  Qed.

  Lemma nodup_adel (k : K) (l : list (K * option N)) : NoDup (map fst l) -> NoDup (map fst (adel keqb k l)).
  Proof.
    induction l as [|[k2 v2] l IH]; intros Hnd; cbn [adel map]; [constructor|].
    inversion Hnd as [|? ? Hni Hnd']; subst. destruct (keqb k k2); [exact Hnd'|].
    cbn [map fst]. constructor; [|apply IH; exact Hnd'].
    intros H. apply Hni. apply in_map_iff in H. destruct H as ([k3 v3] & E & H). cbn in E. subst k3.
    apply (in_adel k k2 v3 l Hnd') in H. destruct H as [H _]. apply (in_map fst) in H. exact H.
  Qed.

  Lemma in_filter_tid tid tid' (k : K) (live : list (N * K)) :
    In (tid', k) (filter (fun p => negb (fst p =? tid)) live) <-> In (tid', k) live /\ tid' <> tid.
  Proof.
    rewrite filter_In. cbn [fst]. rewrite negb_true_iff, N.eqb_neq. tauto.
  Qed.

  Lemma nodup_filter_fst (f : N * K -> bool) (live : list (N * K)) :
    NoDup (map fst live) -> NoDup (map fst (filter f live)).
  Proof.
    induction live as [|p l IH]; intros H; cbn [filter map]; [constructor|].
    inversion H as [|? ? Hni Hnd]; subst. destruct (f p); [|apply IH; exact Hnd].
    cbn [map]. constructor; [|apply IH; exact Hnd]. intros Hin. apply Hni.
    apply in_map_iff in Hin. destruct Hin as (q & E & Hq). apply filter_In in Hq. destruct Hq as [Hq _].
    rewrite <- E. apply in_map. exact Hq.
  Qed.

  Lemma live_key_unique s tid k k' : Inv s -> In (tid, k) (t_live s) -> In (tid, k') (t_live s) -> k = k'.
  Proof.
    intros (_ & _ & Hnd & _). generalize (t_live s) Hnd. clear. intros l. induction l as [|[t0 k0] l IH]; intros Hnd H1 H2; [destruct H1|].
    inversion Hnd as [|? ? Hni Hnd']; subst. destruct H1 as [H1|H1], H2 as [H2|H2].
    - congruence.
    - injection H1 as -> ->. exfalso. apply Hni. apply (in_map fst) in H2. exact H2.
    - injection H2 as -> ->. exfalso. apply Hni. apply (in_map fst) in H1. exact H1.
    - apply IH; assumption.
  Qed.

  (* removing entry k together with its timer keeps the invariant *)
  Lemma inv_remove s k o :
    Inv s -> In (k, o) (t_entries s) ->
    Inv (mkTs (adel keqb k (t_entries s)) (drop_timer o (t_live s)) (t_next s)).
  Proof.
    intros (H1 & H2 & H3 & H4) Hin. unfold Inv. cbn [t_entries t_live t_next].
    split; [apply nodup_adel; exact H1|]. split; [|split].
    - intros k' tid'. rewrite (in_adel k k' (Some tid') _ H1). destruct o as [tid|]; cbn [drop_timer].
      + rewrite in_filter_tid. rewrite <- H2. split.
        * intros [Hk Hne]. split; [exact Hk|]. intros ->. apply Hne.
          apply (live_key_unique s tid k' k); [exact (conj H1 (conj H2 (conj H3 H4)))|apply H2; exact Hk|apply H2; exact Hin].
        * intros [Hk Hne]. split; [exact Hk|]. intros ->.
          assert (E : Some tid' = Some tid).
          { apply (aget_in k _ _ H1) in Hk. apply (aget_in k _ _ H1) in Hin. congruence. }
          congruence.
      + rewrite <- H2. split; [tauto|]. intros Hk. split; [exact Hk|]. intros ->.
        apply (aget_in k _ _ H1) in Hk. apply (aget_in k _ _ H1) in Hin. congruence.
    - destruct o; cbn [drop_timer]; [apply nodup_filter_fst|]; exact H3.
    - intros tid' k' Hl. apply (H4 tid' k'). destruct o; cbn [drop_timer] in Hl; [apply filter_In in Hl; tauto|exact Hl].
  Qed.

  Lemma inv_stop s k : Inv s -> Inv (m_stop k s).
  Proof.
    intros H. unfold m_stop. destruct (aget keqb k (t_entries s)) as [o|] eqn:E; [|exact H].
    apply inv_remove; [exact H|]. destruct H as (H1 & _). apply (aget_in k _ _ H1). exact E.
  Qed.

  Lemma inv_stop_where s p : Inv s -> Inv (m_stop_where p s).
  Proof.
    unfold m_stop_where. generalize (filter p (map fst (t_entries s))). intros l. revert s.
    induction l as [|k l IH]; intros s H; [exact H|]. cbn [fold_left]. apply IH. apply inv_stop. exact H.
  Qed.

  Lemma inv_refresh s k f : Inv s -> Inv (m_refresh k f s).
  Proof.
    intros H. unfold m_refresh.
    (* first remove the old entry (if any) with its timer, then add the new one *)
    assert (Hmid : exists e live, e = adel keqb k (t_entries s)
              /\ live = match aget keqb k (t_entries s) with Some o => drop_timer o (t_live s) | None => t_live s end
              /\ Inv (mkTs e live (t_next s)) /\ ~ In k (map fst e)).
    { eexists _, _. split; [reflexivity|]. split; [reflexivity|].
      destruct H as (H1 & H2 & H3 & H4). split.
      - destruct (aget keqb k (t_entries s)) as [o|] eqn:E.
        + apply (inv_remove s k o); [exact (conj H1 (conj H2 (conj H3 H4)))|]. apply (aget_in k _ _ H1). exact E.
        + assert (Hn : adel keqb k (t_entries s) = t_entries s).
          { apply aget_none_notin in E; [|exact keqb_eq]. clear -E keqb_eq. induction (t_entries s) as [|[k2 v2] l IH]; [reflexivity|].
            cbn [adel]. destruct (keqb k k2) eqn:E2; [apply keqb_eq in E2; subst; exfalso; apply E; left; reflexivity|].
            f_equal. apply IH. intros Hin. apply E. right. exact Hin. }
          rewrite Hn. exact (conj H1 (conj H2 (conj H3 H4))).
      - intros Hin. apply in_map_iff in Hin. destruct Hin as ([k2 v2] & E & Hin). cbn in E. subst k2.
        apply (in_adel k k v2 _ H1) in Hin. destruct Hin as [_ Hne]. congruence. }
    destruct Hmid as (e & live & He & Hlive & (H1 & H2 & H3 & H4) & Hni). cbn [t_entries t_live t_next] in *.
    rewrite <- He, <- Hlive. clear He Hlive.
    destruct f; unfold Inv; cbn [t_entries t_live t_next].
    - split; [rewrite map_app; apply nodup_snoc; assumption|]. split; [|split].
      + intros k' tid'. rewrite !in_app_iff. cbn [In]. rewrite H2. split.
        * intros [Hl|[E|[]]]; [left; exact Hl|]. injection E as <- <-. right. left. reflexivity.
        * intros [Hl|[E|[]]]; [left; exact Hl|]. injection E as <- <-. right. left. reflexivity.
      + rewrite map_app. apply nodup_snoc; [exact H3|]. intros Hin. apply in_map_iff in Hin.
        destruct Hin as ([t0 k0] & E & Hin). cbn in E. subst t0. apply H4 in Hin. lia.
      + intros tid' k' Hl. apply in_app_iff in Hl. destruct Hl as [Hl|[E|[]]]; [apply H4 in Hl; lia|]. injection E as <- _. lia.
    - split; [rewrite map_app; apply nodup_snoc; assumption|]. split; [|split; assumption].
      intros k' tid'. rewrite in_app_iff. cbn [In]. rewrite <- H2. split; [|tauto].
      intros [Hl|[E|[]]]; [exact Hl|discriminate].
  Qed.

  Lemma inv_fire s tid : Inv s -> Inv (m_fire tid s).
  Proof.
    intros H. unfold m_fire. destruct (aget N.eqb tid (t_live s)) as [k|] eqn:El; [|exact H].
    destruct H as (H1 & H2 & H3 & H4).
    assert (Hl : In (tid, k) (t_live s)).
    { clear -El. induction (t_live s) as [|[t0 k0] l IH]; [discriminate|]. cbn [aget] in El.
      destruct (N.eqb_spec tid t0) as [->|Hne]; [injection El as ->; left; reflexivity|right; apply IH; exact El]. }
    assert (He : In (k, Some tid) (t_entries s)) by (apply H2; exact Hl).
    apply (aget_in k _ _ H1) in He. rewrite He.
    change (filter (fun p => negb (fst p =? tid)) (t_live s)) with (drop_timer (Some tid) (t_live s)).
    apply inv_remove; [exact (conj H1 (conj H2 (conj H3 H4)))|]. apply (aget_in k _ _ H1). exact He.
  Qed.

  Theorem inv_step s o : Inv s -> Inv (step s o).
  Proof. destruct o; cbn [step]; [apply inv_refresh|apply inv_stop|apply inv_stop_where|apply inv_fire]. Qed.

  Theorem inv_reachable ops : Inv (fold_left step ops (mkTs [] [] 1)).
  Proof.
    assert (H0 : Inv (mkTs [] [] 1)).
    { unfold Inv; cbn. split; [constructor|]. split; [tauto|]. split; [constructor|tauto]. }
    revert H0. generalize (mkTs [] [] 1). induction ops as [|o ops IH]; intros s H; [exact H|].
    cbn [fold_left]. apply IH. apply inv_step. exact H.
  Qed.

  (* no stale timer: a live timer is the timer of the entry stored under its key now *)
  Theorem live_timer_owned ops tid k :
    let s := fold_left step ops (mkTs [] [] 1) in
    In (tid, k) (t_live s) -> aget keqb k (t_entries s) = Some (Some tid).
  Proof.
    intros s Hl. pose proof (inv_reachable ops) as (H1 & H2 & _). fold s in H1, H2.
    apply (aget_in k _ _ H1). apply H2. exact Hl.
  Qed.

  (* firing a live timer removes exactly that entry; an entry with the infinite TTL owns no timer *)
  Theorem forever_owns_no_timer ops k :
    let s := fold_left step ops (mkTs [] [] 1) in
    In (k, None) (t_entries s) -> forall tid, ~ In (tid, k) (t_live s).
  Proof.
    intros s Hin tid Hl. pose proof (inv_reachable ops) as (H1 & H2 & _). fold s in H1, H2.
    apply H2 in Hl. apply (aget_in k _ _ H1) in Hl. apply (aget_in k _ _ H1) in Hin. congruence.
  Qed.

  (* a removed entry has no timer left: nothing will be reported for it later *)
  Theorem stopped_entry_has_no_timer ops k :
    let s := m_stop k (fold_left step ops (mkTs [] [] 1)) in
    forall tid, ~ In (tid, k) (t_live s).
  Proof.
    intros s tid Hl. assert (HI : Inv s) by (apply inv_stop; apply inv_reachable).
    destruct HI as (H1 & H2 & _). apply H2 in Hl. apply (in_map fst) in Hl. cbn [fst] in Hl.
    revert Hl. unfold s, m_stop. set (s0 := fold_left step ops _).
    pose proof (inv_reachable ops) as (H1' & _). fold s0 in H1'.
    destruct (aget keqb k (t_entries s0)) as [o|] eqn:E; cbn [t_entries].
    - intros Hin. apply in_map_iff in Hin. destruct Hin as ([k2 v2] & Ek & Hin). cbn in Ek. subst k2.
      apply (in_adel k k v2 _ H1') in Hin. destruct Hin as [_ Hne]. congruence.
    - intros Hin. apply (aget_none_notin keqb keqb_eq) in E. contradiction.
  Qed.
End Machine.
