(* struct.pack / struct.unpack in network byte order, generic in the format. *)
From PS Require Import Lib.Base.

Inductive fval := VI (n : N) | VB (b : bytes).

Definition fsize (c : fcode) : N :=
  match c with U8 => 1 | U16 => 2 | U32 => 4 | Raw n => n end.
Fixpoint fmt_size (f : fmt) : N :=
  match f with [] => 0 | c :: r => fsize c + fmt_size r end.

(* struct.error exactly when an integer is outside [0, 2^w); a bytes field must have the
   field's length (Python pads/truncates silently; no caller ever passes another length) *)
Definition pack1 (c : fcode) (v : fval) : result bytes :=
  match c, v with
  | U8, VI n => if n <? 256 then Ok (be 1 n) else Err EStruct
  | U16, VI n => if n <? 65536 then Ok (be 2 n) else Err EStruct
  | U32, VI n => if n <? 4294967296 then Ok (be 4 n) else Err EStruct
  | Raw k, VB b => if len b =? k then Ok b else Err EStruct
  | _, _ => Err EStruct
  end.

Fixpoint pack (f : fmt) (vs : list fval) : result bytes :=
  match f, vs with
  | [], [] => Ok []
  | c :: f', v :: vs' =>
      do b <- pack1 c v; do r <- pack f' vs'; Ok (b ++ r)
  | _, _ => Err EStruct
  end.

Definition unpack1 (c : fcode) (b : bytes) : fval :=
  match c with
  | Raw _ => VB b
  | _ => VI (unbe b)
  end.

(* assumes |b| = fmt_size f *)
Fixpoint unpack_all (f : fmt) (b : bytes) : list fval :=
  match f with
  | [] => []
  | c :: f' => unpack1 c (takeN (fsize c) b) :: unpack_all f' (dropN (fsize c) b)
  end.

(* header._unpack: length guard (IncompleteReadError), then split *)
Definition unpack (f : fmt) (b : bytes) : result (list fval * bytes) :=
  if len b <? fmt_size f then Err EIncomplete
  else Ok (unpack_all f (takeN (fmt_size f) b), dropN (fmt_size f) b).
