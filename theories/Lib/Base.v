(* Base definitions shared by every model file: numbers are N, bytes are N < 256,
   errors are values, s-expressions are the wire format between the harness and
   the (extracted or vm_compute'd) model. *)
From Coq Require Export NArith List Bool.
Export ListNotations.
Open Scope N_scope.

(* ---- errors: the small enum onto which the harness maps Python exception types ---- *)
Inductive err :=
| EParse        (* someip.header.ParseError (not IncompleteReadError) *)
| EIncomplete   (* someip.header.IncompleteReadError                  *)
| EUnicode      (* UnicodeDecodeError / UnicodeEncodeError            *)
| EStruct       (* struct.error                                       *)
| EValue        (* ValueError                                         *)
| EType         (* TypeError                                          *)
| EKey          (* KeyError                                           *)
| ERuntime      (* RuntimeError (other than ParseError)               *)
| EStreamEnd    (* asyncio.IncompleteReadError (stream ended)         *)
| EFuel.        (* model ran out of fuel: never a faithful outcome    *)

Definition err_code (e : err) : N :=
  match e with
  | EParse => 1 | EIncomplete => 2 | EUnicode => 3 | EStruct => 4 | EValue => 5
  | EType => 6 | EKey => 7 | ERuntime => 8 | EStreamEnd => 9 | EFuel => 99
  end.

Inductive result (A : Type) := Ok (a : A) | Err (e : err).
Arguments Ok {A} a.
Arguments Err {A} e.

Definition bind {A B} (r : result A) (f : A -> result B) : result B :=
  match r with Ok a => f a | Err e => Err e end.
Notation "'do' x <- r ; k" := (bind r (fun x => k))
  (at level 200, x pattern, r at level 100, k at level 200, right associativity).

Definition is_ok {A} (r : result A) : bool := match r with Ok _ => true | Err _ => false end.

(* ---- bytes ---- *)
Definition bytes := list N.
Definition byte_okb (b : N) : bool := b <? 256.
Definition bytes_okb (l : bytes) : bool := forallb byte_okb l.
Definition bytes_ok (l : bytes) : Prop := Forall (fun b => b < 256) l.

Definition len {A} (l : list A) : N := N.of_nat (length l).
Definition takeN {A} (n : N) (l : list A) : list A := firstn (N.to_nat n) l.
Definition dropN {A} (n : N) (l : list A) : list A := skipn (N.to_nat n) l.

(* big-endian encoding of v on k bytes (the low k bytes of v) *)
Fixpoint be (k : nat) (v : N) : bytes :=
  match k with
  | O => []
  | S k' => be k' (v / 256) ++ [v mod 256]
  end.

Definition unbe (l : bytes) : N := fold_left (fun acc b => acc * 256 + b) l 0.

(* ---- s-expressions ---- *)
Inductive sexp := A (n : N) | B (b : bytes) | L (l : list sexp).

Definition sbool (b : bool) : sexp := A (if b then 1 else 0).
Definition sopt {X} (f : X -> sexp) (o : option X) : sexp :=
  match o with None => L [] | Some x => L [f x] end.
Definition slist {X} (f : X -> sexp) (l : list X) : sexp := L (map f l).
Definition sres {X} (f : X -> sexp) (r : result X) : sexp :=
  match r with Ok x => L [A 0; f x] | Err e => L [A 1; A (err_code e)] end.

(* decoding of s-expressions: total, malformed input -> None (the driver prints "BAD") *)
Definition dN (s : sexp) : option N := match s with A n => Some n | _ => None end.
Definition dB (s : sexp) : option bytes := match s with B b => Some b | L [] => Some [] | _ => None end.
Definition dbool (s : sexp) : option bool :=
  match s with A 0 => Some false | A _ => Some true | _ => None end.
Definition dL (s : sexp) : option (list sexp) := match s with L l => Some l | _ => None end.

Definition obind {X Y} (o : option X) (f : X -> option Y) : option Y :=
  match o with Some x => f x | None => None end.
Notation "'let?' x := o 'in' k" := (obind o (fun x => k))
  (at level 200, x pattern, o at level 100, k at level 200, right associativity).

Fixpoint dmap {X} (f : sexp -> option X) (l : list sexp) : option (list X) :=
  match l with
  | [] => Some []
  | s :: r => let? x := f s in let? xs := dmap f r in Some (x :: xs)
  end.
Definition dlist {X} (f : sexp -> option X) (s : sexp) : option (list X) :=
  let? l := dL s in dmap f l.
Definition dopt {X} (f : sexp -> option X) (s : sexp) : option (option X) :=
  match s with
  | L [] => Some None
  | L [x] => let? v := f x in Some (Some v)
  | _ => None
  end.

(* ---- insertion-ordered association lists (Python dict order is observable) ---- *)
Section AList.
  Context {K V : Type} (eqb : K -> K -> bool).
  Fixpoint aget (k : K) (l : list (K * V)) : option V :=
    match l with
    | [] => None
    | (k', v) :: r => if eqb k k' then Some v else aget k r
    end.
  (* dict[k] = v : keeps the position of an existing key, appends a new one *)
  Fixpoint aset (k : K) (v : V) (l : list (K * V)) : list (K * V) :=
    match l with
    | [] => [(k, v)]
    | (k', v') :: r => if eqb k k' then (k', v) :: r else (k', v') :: aset k v r
    end.
  Fixpoint adel (k : K) (l : list (K * V)) : list (K * V) :=
    match l with
    | [] => []
    | (k', v') :: r => if eqb k k' then r else (k', v') :: adel k r
    end.
  Definition amem (k : K) (l : list (K * V)) : bool :=
    match aget k l with Some _ => true | None => false end.
End AList.

Fixpoint list_eqb {X} (eqb : X -> X -> bool) (a b : list X) : bool :=
  match a, b with
  | [], [] => true
  | x :: a', y :: b' => eqb x y && list_eqb eqb a' b'
  | _, _ => false
  end.

Definition opt_eqb {X} (eqb : X -> X -> bool) (a b : option X) : bool :=
  match a, b with
  | None, None => true
  | Some x, Some y => eqb x y
  | _, _ => false
  end.

Definition memN (x : N) (l : list N) : bool := existsb (N.eqb x) l.

Fixpoint nth_opt {X} (l : list X) (n : nat) : option X :=
  match l, n with
  | [], _ => None
  | x :: _, O => Some x
  | _ :: r, S n' => nth_opt r n'
  end.

(* ---- struct format codes ('!' network order): B H I <n>s ---- *)
Inductive fcode := U8 | U16 | U32 | Raw (n : N).
Definition fmt := list fcode.
