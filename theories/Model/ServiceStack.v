(* service.py: SimpleEventgroup (subscribe / unsubscribe / notify_once / cyclic_notify / _notify_all /
   _notify_single) and SimpleService.client_subscribed / client_unsubscribed, on its own small event-loop model
   (same rules as Model/Stack.v: FIFO ready queue, timers, tasks start one hop after creation, gather =
   children + done-callback hop + parent wake-up hop, Event.wait on a set event does not suspend). *)
From PS Require Import Lib.Base Lib.Struct Generated.Consts Model.SdTypes Model.Session Model.Someip.

(* an endpoint option of a subscription: address number (v4: 10.0.0.n, v6: 2001:db8::n), port *)
Record ep := mkEp { ep_v6 : bool; ep_n : N; ep_port : N }.
Definition ep_eqb (a b : ep) : bool := Bool.eqb (ep_v6 a) (ep_v6 b) && (ep_n a =? ep_n b) && (ep_port a =? ep_port b).
(* the resolved socket address is the key of the per-destination session storage and the sendto target *)
Definition ep_dest (e : ep) : N := (if ep_v6 e then 1 else 0) * 4294967296 + ep_n e * 65536 + ep_port e.

Inductive evspec := EvAll | EvList (l : list N).

Inductive sapi :=
| SSubscribe (eg : N) (eps : list ep)       (* ServerServiceListener.client_subscribed *)
| SUnsubscribe (eg : N) (eps : list ep)     (* client_unsubscribed *)
| SSetValue (ev : N) (p : bytes)
| SNotifyOnce (evs : list N).

Inductive shandle :=
| ShApi (c : sapi)
| ShWake (t : N)
| ShSleepDone (t : N)
| ShChildDone (parent : N).

Inductive sevent :=
| SvSent (dest : N) (data : bytes)
| SvNak                                      (* NakSubscription raised *)
| SvRaised (code : N).

(* task kinds: 0 cyclic_notify; 1 _notify_all (task of notify_once); 2 _notify_single *)
Inductive skind := KCyclic | KAll (evs : evspec) | KSingle (e : ep) (evs : evspec) (parent : option N).
Record stask := mkSTask { sk_kind : skind; sk_pc : N; sk_pending : N; sk_done : bool }.

Record sworld := mkSWorld {
  s_now : N; s_ready : list (option N * shandle); s_timers : list (N * N * shandle); s_next : N;
  s_svc : N; s_major : N; s_eg : N; s_interval : N; s_resolve : N;
  s_eps : list (ep * N); s_has_clients : bool; s_cy_waiting : bool; s_cy_task : option N;
  s_values : list (N * bytes); s_sess : Session.sess; s_tasks : list (N * stask);
  s_out : list (N * sevent) }.

Definition sw_ready (v : list (option N * shandle)) (w : sworld) : sworld :=
  mkSWorld (s_now w) v (s_timers w) (s_next w) (s_svc w) (s_major w) (s_eg w) (s_interval w) (s_resolve w)
           (s_eps w) (s_has_clients w) (s_cy_waiting w) (s_cy_task w) (s_values w) (s_sess w) (s_tasks w) (s_out w).
Definition sw_timers (v : list (N * N * shandle)) (n : N) (w : sworld) : sworld :=
  mkSWorld (s_now w) (s_ready w) v n (s_svc w) (s_major w) (s_eg w) (s_interval w) (s_resolve w)
           (s_eps w) (s_has_clients w) (s_cy_waiting w) (s_cy_task w) (s_values w) (s_sess w) (s_tasks w) (s_out w).
Definition sw_now (v : N) (w : sworld) : sworld :=
  mkSWorld v (s_ready w) (s_timers w) (s_next w) (s_svc w) (s_major w) (s_eg w) (s_interval w) (s_resolve w)
           (s_eps w) (s_has_clients w) (s_cy_waiting w) (s_cy_task w) (s_values w) (s_sess w) (s_tasks w) (s_out w).
Definition sw_group (eps : list (ep * N)) (hc cw : bool) (w : sworld) : sworld :=
  mkSWorld (s_now w) (s_ready w) (s_timers w) (s_next w) (s_svc w) (s_major w) (s_eg w) (s_interval w) (s_resolve w)
           eps hc cw (s_cy_task w) (s_values w) (s_sess w) (s_tasks w) (s_out w).
Definition sw_values (v : list (N * bytes)) (w : sworld) : sworld :=
  mkSWorld (s_now w) (s_ready w) (s_timers w) (s_next w) (s_svc w) (s_major w) (s_eg w) (s_interval w) (s_resolve w)
           (s_eps w) (s_has_clients w) (s_cy_waiting w) (s_cy_task w) v (s_sess w) (s_tasks w) (s_out w).
Definition sw_sess (v : Session.sess) (w : sworld) : sworld :=
  mkSWorld (s_now w) (s_ready w) (s_timers w) (s_next w) (s_svc w) (s_major w) (s_eg w) (s_interval w) (s_resolve w)
           (s_eps w) (s_has_clients w) (s_cy_waiting w) (s_cy_task w) (s_values w) v (s_tasks w) (s_out w).
Definition sw_tasks (v : list (N * stask)) (n : N) (cy : option N) (w : sworld) : sworld :=
  mkSWorld (s_now w) (s_ready w) (s_timers w) n (s_svc w) (s_major w) (s_eg w) (s_interval w) (s_resolve w)
           (s_eps w) (s_has_clients w) (s_cy_waiting w) cy (s_values w) (s_sess w) v (s_out w).
Definition sw_out (v : list (N * sevent)) (w : sworld) : sworld :=
  mkSWorld (s_now w) (s_ready w) (s_timers w) (s_next w) (s_svc w) (s_major w) (s_eg w) (s_interval w) (s_resolve w)
           (s_eps w) (s_has_clients w) (s_cy_waiting w) (s_cy_task w) (s_values w) (s_sess w) (s_tasks w) v.

Definition semit (e : sevent) (w : sworld) : sworld := sw_out ((s_now w, e) :: s_out w) w.
Definition ssoon (h : shandle) (w : sworld) : sworld := sw_ready (s_ready w ++ [(None, h)]) w.
Definition slater (d : N) (h : shandle) (w : sworld) : sworld :=
  sw_timers (s_timers w ++ [(s_now w + d, s_next w, h)]) (s_next w + 1) w.

Definition sget (t : N) (w : sworld) : option stask := aget N.eqb t (s_tasks w).
Definition sput (t : N) (tk : stask) (w : sworld) : sworld :=
  sw_tasks (aset N.eqb t tk (s_tasks w)) (s_next w) (s_cy_task w) w.
Definition snew (k : skind) (w : sworld) : N * sworld :=
  let t := s_next w in
  (t, ssoon (ShWake t) (sw_tasks (s_tasks w ++ [(t, mkSTask k 0 0 false)]) (t + 1) (s_cy_task w) w)).

(* one notification message: header fields as in _notify_single *)
Definition notification (w : sworld) (ev sid : N) (p : bytes) : someip :=
  mkMsg (s_svc w) (N.lor EVENT_BIT ev) 0 sid (s_major w) MT_NOTIFICATION 1 RC_E_OK p.

Definition events_of (spec : evspec) (w : sworld) : list N :=
  match spec with EvAll => map fst (s_values w) | EvList l => l end.

(* the body of _notify_single after the address is resolved: one datagram with one notification per event.
   A missing value (KeyError) or an unencodable message ends the coroutine (log_exceptions), nothing is sent. *)
Fixpoint build_notifications (w : sworld) (dest : N) (evs : list N) (buf : bytes) (s : Session.sess)
  : option (bytes * Session.sess) :=
  match evs with
  | [] => Some (buf, s)
  | ev :: r =>
      match aget N.eqb ev (s_values w) with
      | None => None
      | Some p =>
          let '((_, sid), s') := assign_outgoing s (Some dest) in
          match build_msg (notification w ev sid p) with
          | Ok b => build_notifications w dest r (buf ++ b) s'
          | Err _ => None
          end
      end
  end.

(* session ids taken before a failure stay taken (assign_outgoing has run): mirror that *)
Fixpoint consume_ids (w : sworld) (dest : N) (evs : list N) (s : Session.sess) : Session.sess :=
  match evs with
  | [] => s
  | ev :: r =>
      match aget N.eqb ev (s_values w) with
      | None => s
      | Some p => let '((_, sid), s') := assign_outgoing s (Some dest) in
                  match build_msg (notification w ev sid p) with
                  | Ok _ => consume_ids w dest r s'
                  | Err _ => s'
                  end
      end
  end.

Definition notify_send (e : ep) (spec : evspec) (w : sworld) : sworld :=
  let dest := ep_dest e in
  let evs := events_of spec w in
  match build_notifications w dest evs [] (s_sess w) with
  | Some (buf, s') => let w1 := sw_sess s' w in
                      match buf with [] => w1 | _ => semit (SvSent dest buf) w1 end
  | None => sw_sess (consume_ids w dest evs (s_sess w)) w
  end.

Definition sfinish (t : N) (w : sworld) : sworld :=
  match sget t w with
  | Some tk =>
      let w1 := sput t (mkSTask (sk_kind tk) (sk_pc tk) 0 true) w in
      match sk_kind tk with
      | KSingle _ _ (Some parent) => ssoon (ShChildDone parent) w1
      | _ => w1
      end
  | None => w
  end.

(* _notify_all: snapshot the endpoint set, one child task per endpoint; with no endpoints gather() is already done *)
Definition start_round (t : N) (k : skind) (spec : evspec) (pc_wait : N) (w : sworld) : sworld * bool :=
  match map fst (s_eps w) with
  | [] => (w, false)
  | eps =>
      let w1 := fold_left (fun acc e => snd (snew (KSingle e spec (Some t)) acc)) eps w in
      (sput t (mkSTask k pc_wait (len eps) false) w1, true)
  end.

(* cyclic_notify: pc 0 start / top of loop; 1 waiting for has_clients; 2 sleeping; 3 waiting for the round *)
Definition cyclic_sleep (t : N) (w : sworld) : sworld :=
  slater (s_interval w) (ShSleepDone t) (sput t (mkSTask KCyclic 2 0 false) w).
(* top of the loop: await has_clients.wait() suspends only when the event is clear *)
Definition cyclic_top (t : N) (w : sworld) : sworld :=
  if s_has_clients w then cyclic_sleep t w
  else sput t (mkSTask KCyclic 1 0 false) (sw_group (s_eps w) (s_has_clients w) true w).

Definition sstep (t : N) (w : sworld) : sworld :=
  match sget t w with
  | None => w
  | Some tk =>
      if sk_done tk then w else
      match sk_kind tk, sk_pc tk with
      | KCyclic, 0 => cyclic_top t w
      | KCyclic, 1 => cyclic_sleep t w          (* the waiter future completed: no re-check of the event *)
      | KCyclic, 2 =>
          (* sleep over: await _notify_all(values.keys()) inline *)
          let '(w1, suspended) := start_round t KCyclic EvAll 3 w in
          if suspended then w1 else cyclic_top t w1
      | KCyclic, _ => cyclic_top t w
      | KAll spec, 0 =>
          let '(w1, suspended) := start_round t (KAll spec) spec 1 w in
          if suspended then w1 else sfinish t w1
      | KAll _, _ => sfinish t w
      | KSingle e spec _, 0 =>
          if s_resolve w =? 0 then sfinish t (notify_send e spec w)
          else slater (s_resolve w) (ShSleepDone t) (sput t (mkSTask (sk_kind tk) 1 0 false) w)
      | KSingle e spec _, _ => sfinish t (notify_send e spec w)
      end
  end.

Definition child_done (parent : N) (w : sworld) : sworld :=
  match sget parent w with
  | Some tk => if sk_done tk then w else
               let n := sk_pending tk - 1 in
               let w1 := sput parent (mkSTask (sk_kind tk) (sk_pc tk) n false) w in
               if n =? 0 then ssoon (ShWake parent) w1 else w1
  | None => w
  end.

(* subscribed_endpoints is a Counter (dict endpoint -> number of live subscriptions naming it); it iterates its
   keys in insertion order.  Transmissions of one instant are ordered by the canonicaliser (see harness). *)
Definition eg_subscribe (e : ep) (w : sworld) : sworld :=
  let eps := match aget ep_eqb e (s_eps w) with
             | Some n => aset ep_eqb e (n + 1) (s_eps w)
             | None => s_eps w ++ [(e, 1)]
             end in
  let wake := s_cy_waiting w && negb (s_has_clients w) in
  let w1 := sw_group eps true (if wake then false else s_cy_waiting w) w in
  let w2 := match s_cy_task w1 with
            | Some cy => if wake then ssoon (ShWake cy) w1 else w1
            | None => w1
            end in
  snd (snew (KSingle e EvAll None) w2).

Definition eg_unsubscribe (e : ep) (w : sworld) : sworld * bool :=
  match aget ep_eqb e (s_eps w) with
  | Some n =>
      let eps := if n <=? 1 then adel ep_eqb e (s_eps w) else aset ep_eqb e (n - 1) (s_eps w) in
      (sw_group eps (match eps with [] => false | _ => s_has_clients w end) (s_cy_waiting w) w, true)
  | None => (w, false)
  end.

Definition exec_sapi (c : sapi) (w : sworld) : sworld :=
  match c with
  | SSubscribe eg eps =>
      if negb (eg =? s_eg w) then semit SvNak w else
      match eps with
      | [e] => eg_subscribe e w
      | _ => semit SvNak w
      end
  | SUnsubscribe eg eps =>
      if negb (eg =? s_eg w) then semit (SvRaised 97) w else   (* AssertionError: unknown eventgroup *)
      match eps with
      | e :: _ => fst (eg_unsubscribe e w)                      (* KeyError is caught and logged *)
      | [] => semit (SvRaised 96) w                             (* StopIteration *)
      end
  | SSetValue ev p => sw_values (aset N.eqb ev p (s_values w)) w
  | SNotifyOnce evs => if s_has_clients w then snd (snew (KAll (EvList evs)) w) else w
  end.

Definition sexec (h : shandle) (w : sworld) : sworld :=
  match h with
  | ShApi c => exec_sapi c w
  | ShWake t => sstep t w
  | ShSleepDone t => ssoon (ShWake t) w
  | ShChildDone p => child_done p w
  end.

Fixpoint sinsert (x : N * N * shandle) (l : list (N * N * shandle)) : list (N * N * shandle) :=
  match l with
  | [] => [x]
  | y :: r => if fst (fst x) <=? fst (fst y) then x :: y :: r else y :: sinsert x r
  end.

Fixpoint srun_ready (n : nat) (w : sworld) : sworld :=
  match n with
  | O => w
  | S n' => match s_ready w with
            | [] => w
            | (_, h) :: r => srun_ready n' (sexec h (sw_ready r w))
            end
  end.

Definition siteration (arrivals : list shandle) (w : sworld) : sworld :=
  let w1 := fold_left (fun acc h => ssoon h acc) arrivals w in
  let due := filter (fun t => fst (fst t) <=? s_now w1) (s_timers w1) in
  let rest := filter (fun t => negb (fst (fst t) <=? s_now w1)) (s_timers w1) in
  let w2 := sw_timers rest (s_next w1)
              (sw_ready (s_ready w1 ++ map (fun t => (Some (snd (fst t)), snd t)) (fold_right sinsert [] due)) w1) in
  srun_ready (length (s_ready w2)) w2.

Fixpoint ssplit (t : N) (events : list (N * shandle)) : list (N * shandle) * list (N * shandle) :=
  match events with
  | [] => ([], [])
  | e :: r => if fst e <=? t then let '(a, l) := ssplit t r in (e :: a, l) else ([], events)
  end.

Definition snext_timer (w : sworld) : option N :=
  fold_left (fun acc t => match acc with None => Some (fst (fst t)) | Some m => Some (N.min m (fst (fst t))) end)
            (s_timers w) None.

Fixpoint srun (fuel : nat) (events : list (N * shandle)) (t_end : N) (w : sworld) : sworld * bool :=
  match fuel with
  | O => (w, false)
  | S f =>
      let '(arrived, later) := ssplit (s_now w) events in
      let due_now := match snext_timer w with Some t => t <=? s_now w | None => false end in
      match s_ready w, arrived, due_now with
      | [], [], false =>
          let nxt := match snext_timer w, later with
                     | None, [] => None
                     | Some t, [] => Some t
                     | None, e :: _ => Some (fst e)
                     | Some t, e :: _ => Some (N.min t (fst e))
                     end in
          match nxt with
          | None => (w, true)
          | Some t => if t_end <? t then (w, true) else srun f events t_end (sw_now (N.max t (s_now w)) w)
          end
      | _, _, _ => srun f later t_end (siteration (map snd arrived) w)
      end
  end.

(* ---- scenario / trace s-expressions ---- *)
Definition d_ep (s : sexp) : option ep :=
  match s with L [v; A n; A p] => let? v' := dbool v in Some (mkEp v' n p) | _ => None end.
Definition d_sapi (s : sexp) : option sapi :=
  match s with
  | L [A 0; A eg; eps] => let? eps' := dlist d_ep eps in Some (SSubscribe eg eps')
  | L [A 1; A eg; eps] => let? eps' := dlist d_ep eps in Some (SUnsubscribe eg eps')
  | L [A 2; A ev; p] => let? p' := dB p in Some (SSetValue ev p')
  | L [A 3; evs] => let? evs' := dlist dN evs in Some (SNotifyOnce evs')
  | _ => None
  end.

Record sscenario := mkSSc {
  ss_svc : N; ss_major : N; ss_egid : N; ss_interval : N; ss_resolve : N;
  ss_values : list (N * bytes); ss_events : list (N * sapi); ss_end : N; ss_fuel : N }.

Definition d_sscenario (s : sexp) : option sscenario :=
  match s with
  | L [A svc; A maj; A eg; A iv; A rs; vals; evs; A t_end; A fuel] =>
      let? vals' := dlist (fun x => match x with L [A ev; p] => let? p' := dB p in Some (ev, p') | _ => None end) vals in
      let? evs' := dlist (fun x => match x with L [A t; c] => let? c' := d_sapi c in Some (t, c') | _ => None end) evs in
      Some (mkSSc svc maj eg iv rs vals' evs' t_end fuel)
  | _ => None
  end.

Definition sinit (sc : sscenario) : sworld :=
  let w0 := mkSWorld 0 [] [] 1 (ss_svc sc) (ss_major sc) (ss_egid sc) (ss_interval sc) (ss_resolve sc)
                     [] false false None (ss_values sc) sess_init [] [] in
  if ss_interval sc =? 0 then w0
  else let '(t, w1) := snew KCyclic w0 in sw_tasks (s_tasks w1) (s_next w1) (Some t) w1.

Definition srun_scenario (sc : sscenario) : sworld * bool :=
  srun (N.to_nat (ss_fuel sc)) (map (fun p => (fst p, ShApi (snd p))) (ss_events sc)) (ss_end sc) (sinit sc).

Definition s_sevent (e : sevent) : sexp :=
  match e with
  | SvSent d data => L [A 0; A d; B data]
  | SvNak => L [A 1]
  | SvRaised c => L [A 2; A c]
  end.
Definition strace := list (N * sevent).
Definition d_strace (s : sexp) : option strace :=
  dlist (fun x => match x with
                  | L [A t; L [A 0; A d; data]] => let? data' := dB data in Some (t, SvSent d data')
                  | L [A t; L [A 1]] => Some (t, SvNak)
                  | L [A t; L [A 2; A c]] => Some (t, SvRaised c)
                  | _ => None
                  end) s.

Definition srun_op (arg : sexp) : option sexp :=
  let? sc := d_sscenario arg in
  let '(w, completed) := srun_scenario sc in
  Some (L [slist (fun p => L [A (fst p); s_sevent (snd p)]) (rev (s_out w)); sbool completed;
           L [slist (fun e => L [sbool (ep_v6 e); A (ep_n e); A (ep_port e)]) (map fst (s_eps w)); sbool (s_has_clients w)]]).
