(* header.py: SOMEIPHeader build / parse / _parse_header / read, and the datagram loop of
   SOMEIPDatagramProtocol.datagram_received. *)
From PS Require Import Lib.Base Lib.Struct Generated.Consts Model.SdTypes.

Definition build_msg (m : someip) : result bytes :=
  do hdr <- pack fmt_someip
      [VI (m_sid m); VI (m_mid m); VI (len (m_payload m) + 8); VI (m_cid m); VI (m_sess m);
       VI (m_pv m); VI (m_iv m); VI (m_mt m); VI (m_rc m)];
  Ok (hdr ++ m_payload m).

(* _parse_header: returns the size field and the builder *)
Definition parse_header (vs : list fval) : result (N * (bytes -> someip)) :=
  match vs with
  | [VI sid; VI mid; VI size; VI cid; VI sess; VI pv; VI iv; VI mt; VI rc] =>
      if negb (pv =? 1) then Err EParse else
      if negb (memN mt msg_type_values) then Err EParse else
      if negb (memN rc ret_code_values) then Err EParse else
      if size <? 8 then Err EParse else
      Ok (size, fun p => mkMsg sid mid cid sess iv mt pv rc p)
  | _ => Err EFuel
  end.

Definition parse_msg (b : bytes) : result (someip * bytes) :=
  do (vs, rest) <- unpack fmt_someip b;
  do (size, mk) <- parse_header vs;
  if len rest <? size - 8 then Err EIncomplete
  else Ok (mk (takeN (size - 8) rest), dropN (size - 8) rest).

(* SOMEIPHeader.read over an abstract reader holding the remaining stream s:
   readexactly n = first n bytes, or asyncio.IncompleteReadError when the stream ends *)
Definition readexactly (n : N) (s : bytes) : result (bytes * bytes) :=
  if len s <? n then Err EStreamEnd else Ok (takeN n s, dropN n s).

Definition read_msg (s : bytes) : result (someip * bytes) :=
  do (hdr, s1) <- readexactly (fmt_size fmt_someip) s;
  do (size, mk) <- parse_header (unpack_all fmt_someip hdr);
  do (p, s2) <- readexactly (size - 8) s1;
  Ok (mk p, s2).

(* datagram_received: while data: parse, deliver; a ParseError ends the loop (logged).
   Returns the delivered messages and the error that ended the loop, if any. *)
Fixpoint datagram_msgs (fuel : nat) (data : bytes) : list someip * option err :=
  match data with
  | [] => ([], None)
  | _ =>
      match fuel with
      | O => ([], Some EFuel)
      | S f =>
          match parse_msg data with
          | Err e => ([], Some e)
          | Ok (m, rest) => let '(ms, e) := datagram_msgs f rest in (m :: ms, e)
          end
      end
  end.
Definition datagram_split (data : bytes) : list someip * option err :=
  datagram_msgs (S (length data)) data.

(* reading a stream message by message until at_eof() or an exception *)
Fixpoint stream_msgs (fuel : nat) (s : bytes) : list someip * option err :=
  match s with
  | [] => ([], None)
  | _ =>
      match fuel with
      | O => ([], Some EFuel)
      | S f =>
          match read_msg s with
          | Err e => ([], Some e)
          | Ok (m, rest) => let '(ms, e) := stream_msgs f rest in (m :: ms, e)
          end
      end
  end.
Definition stream_split (s : bytes) : list someip * option err :=
  stream_msgs (S (length s)) s.
