(* Vocabulary of the control-flow skeletons that harness/gen_logic.py translates from the source text of sd.py
   (Generated/LogicGen.v): which component method a dispatching function calls - directly or through call_soon.
   Proofs/GenSkel.v interprets the skeletons over the stack model and proves the model's functions equal to them. *)
Inductive gfun :=
| F_discovery_handle_offer            (* self.discovery.handle_offer(entry, addr) *)
| F_announcer_handle_findservice      (* self.announcer.handle_findservice(entry, addr, multicast) *)
| F_announcer_handle_subscribe        (* self.announcer.handle_subscribe(entry, addr) *)
| F_service_offer_stopped             (* ServiceDiscover.service_offer_stopped(addr, entry) *)
| F_service_offered                   (* ServiceDiscover.service_offered(addr, entry) *)
| F_subscribe_stopped                 (* ServiceInstance.eventgroup_subscribe_stopped(addr, subscription) *)
| F_subscriptions_refresh             (* self.subscriptions.refresh(ttl, addr, subscription, client_subscribed, client_unsubscribed) *)
| F_send_nack                         (* self.announcer._send_subscribe_nack(subscription, addr) *)
| F_queue_ack.                        (* self.announcer.queue_send(subscription.to_ack_entry(), remote=addr) *)
Inductive gact := GCall (f : gfun) | GSoon (f : gfun)
| GStop.   (* a bare `return` inside a loop body: the remaining iterations are abandoned (the model has no such path) *)
Definition gprep (g : gact) (p : list gact * bool) : list gact * bool := (cons g (fst p), snd p).

(* what a subscribe / stop-subscribe call of ServiceSubscriber does, in order: record the pair, drop its first record,
   defer a Subscribe / StopSubscribe transmission for it with call_soon *)
Inductive sact := SAppend | SRemove | SSoonStart | SSoonStop.

(* what a TimedStore method does, in order: pop the entry (found), cancel the popped handle, call callback_new, arm the
   TTL timer, store (callback_expired, handle), call the popped callback *)
Inductive tact := TPop | TCancel | TCallNew | TArm | TStore | TCallback.

(* what ServiceAnnouncer.queue_send does: hand the entry over at once (collection timeout 0), or create a collector for the
   destination when none is open (its timeout is armed then) and append the entry to the destination's collector *)
Inductive qact := QSendNow | QNewCollector | QAppend.

(* what answering a FindService does: draw the response delay, defer _answer_find of every matching instance by that delay
   (multicast) or to the next loop iteration (unicast); _answer_find sends the offer to the requester *)
Inductive fact := FDraw | FLaterEach | FSoonEach | FSendOffer.

(* ServiceDiscoveryProtocol.message_received behind its two guards: the session bookkeeping (AFTER the payload decoded),
   the reboot fan-out when it says so, resolve + dispatch; reboot_detected and connection_lost: who is called now, who
   through call_soon and in which order *)
Inductive mact := MSession | MReboot | MResolveDispatch.
Inductive ract := RAnnouncerNow | RSoonSubscriberNoop | RSoonDiscovery | LSoonSubscriber | LSoonDiscovery | LSoonAnnouncer.

(* send_sd: nothing for an empty entry list, else take the destination's session id, build and send; start / stop order *)
Inductive sdact := SAssignSession | SBuildSend.
Inductive pact := PSubscriber | PAnnouncer | PDiscovery.

(* announce_service / stop_announce_service: start the instance when the announcer runs, list it; remove it from the list
   (list.remove raises ValueError when it is not there), stop it when asked to and the announcer runs *)
Inductive aact := AStartInstance | AAppend | ARaiseValueError | ARemove | AStopInstance.

(* what SimpleService.message_received answers: nothing, an error with a return code, the positive response *)
Require Import Coq.NArith.BinNat.
Inductive greply := GNoReply | GError (rc : N) | GPositive.
