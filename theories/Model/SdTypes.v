(* Data types of header.py: SD options, SD entries, SD header, SOME/IP header. *)
From PS Require Import Lib.Base Generated.Consts.

(* class codes as in Generated/Consts.v: 2/3/4 IPv4 endpoint/multicast/sd-endpoint, 5/6/7 IPv6 *)
Inductive sdopt :=
| OUnknown (ty : N) (payload : bytes)
| OLoadBal (prio weight : N)
| OConfig (cfgs : list (list N * option (list N)))  (* str as code points; value may be None *)
| OIP (cls : N) (addr : bytes) (proto : N) (port : N).

Definition cfg_eqb (a b : list N * option (list N)) : bool :=
  list_eqb N.eqb (fst a) (fst b) && opt_eqb (list_eqb N.eqb) (snd a) (snd b).

(* dataclass equality: same class and equal fields (L4Protocols.UDP == 17) *)
Definition sdopt_eqb (a b : sdopt) : bool :=
  match a, b with
  | OUnknown t1 p1, OUnknown t2 p2 => N.eqb t1 t2 && list_eqb N.eqb p1 p2
  | OLoadBal p1 w1, OLoadBal p2 w2 => N.eqb p1 p2 && N.eqb w1 w2
  | OConfig c1, OConfig c2 => list_eqb cfg_eqb c1 c2
  | OIP c1 a1 p1 q1, OIP c2 a2 p2 q2 =>
      N.eqb c1 c2 && list_eqb N.eqb a1 a2 && N.eqb p1 p2 && N.eqb q1 q2
  | _, _ => false
  end.

Definition is_v6_cls (c : N) : bool := 5 <=? c.
Definition is_endpoint_cls (c : N) : bool := (c =? 2) || (c =? 5).
(* isinstance(option, EndpointOption) *)
Definition is_endpoint_opt (o : sdopt) : bool :=
  match o with OIP c _ _ _ => is_endpoint_cls c | _ => false end.

(* e_idx = Some (oi1, oi2, no1, no2): "unresolved" entry (indexes assigned);
   None: "resolved" entry (options carried in e_opts1/e_opts2). *)
Record sdentry := mkEntry {
  e_type : N; e_sid : N; e_iid : N; e_maj : N; e_ttl : N; e_val : N;
  e_opts1 : list sdopt; e_opts2 : list sdopt;
  e_idx : option (N * N * N * N) }.

Definition idx_eqb (a b : N * N * N * N) : bool :=
  let '(a1, a2, a3, a4) := a in let '(b1, b2, b3, b4) := b in
  N.eqb a1 b1 && N.eqb a2 b2 && N.eqb a3 b3 && N.eqb a4 b4.

Definition sdentry_eqb (a b : sdentry) : bool :=
  N.eqb (e_type a) (e_type b) && N.eqb (e_sid a) (e_sid b) && N.eqb (e_iid a) (e_iid b)
  && N.eqb (e_maj a) (e_maj b) && N.eqb (e_ttl a) (e_ttl b) && N.eqb (e_val a) (e_val b)
  && list_eqb sdopt_eqb (e_opts1 a) (e_opts1 b) && list_eqb sdopt_eqb (e_opts2 a) (e_opts2 b)
  && opt_eqb idx_eqb (e_idx a) (e_idx b).

Record sdheader := mkSd {
  sd_entries : list sdentry; sd_options : list sdopt;
  sd_reboot : bool; sd_unicast : bool; sd_flags_unknown : N }.

Record someip := mkMsg {
  m_sid : N; m_mid : N; m_cid : N; m_sess : N; m_iv : N; m_mt : N; m_pv : N; m_rc : N;
  m_payload : bytes }.

Definition someip_eqb (a b : someip) : bool :=
  N.eqb (m_sid a) (m_sid b) && N.eqb (m_mid a) (m_mid b) && N.eqb (m_cid a) (m_cid b)
  && N.eqb (m_sess a) (m_sess b) && N.eqb (m_iv a) (m_iv b) && N.eqb (m_mt a) (m_mt b)
  && N.eqb (m_pv a) (m_pv b) && N.eqb (m_rc a) (m_rc b)
  && list_eqb N.eqb (m_payload a) (m_payload b).

(* ---- s-expression forms (shared with harness/conv.py) ---- *)
Definition s_cfg (c : list N * option (list N)) : sexp :=
  L [L (map A (fst c)); sopt (fun v => L (map A v)) (snd c)].
Definition s_opt (o : sdopt) : sexp :=
  match o with
  | OUnknown t p => L [A 0; A t; B p]
  | OLoadBal p w => L [A 1; A p; A w]
  | OConfig c => L [A 2; slist s_cfg c]
  | OIP c a p q => L [A 3; A c; B a; A p; A q]
  end.
Definition s_idx (i : N * N * N * N) : sexp :=
  let '(a, b, c, d) := i in L [A a; A b; A c; A d].
Definition s_entry (e : sdentry) : sexp :=
  L [A (e_type e); A (e_sid e); A (e_iid e); A (e_maj e); A (e_ttl e); A (e_val e);
     slist s_opt (e_opts1 e); slist s_opt (e_opts2 e); sopt s_idx (e_idx e)].
Definition s_sd (h : sdheader) : sexp :=
  L [slist s_entry (sd_entries h); slist s_opt (sd_options h);
     sbool (sd_reboot h); sbool (sd_unicast h); A (sd_flags_unknown h)].
Definition s_msg (m : someip) : sexp :=
  L [A (m_sid m); A (m_mid m); A (m_cid m); A (m_sess m); A (m_iv m); A (m_mt m);
     A (m_pv m); A (m_rc m); B (m_payload m)].

Definition d_str (s : sexp) : option (list N) := dlist dN s.
Definition d_cfg (s : sexp) : option (list N * option (list N)) :=
  match s with
  | L [k; v] => let? k' := d_str k in let? v' := dopt d_str v in Some (k', v')
  | _ => None
  end.
Definition d_opt (s : sexp) : option sdopt :=
  match s with
  | L [A 0; A t; p] => let? p' := dB p in Some (OUnknown t p')
  | L [A 1; A p; A w] => Some (OLoadBal p w)
  | L [A 2; c] => let? c' := dlist d_cfg c in Some (OConfig c')
  | L [A 3; A c; a; A p; A q] => let? a' := dB a in Some (OIP c a' p q)
  | _ => None
  end.
Definition d_idx (s : sexp) : option (N * N * N * N) :=
  match s with L [A a; A b; A c; A d] => Some (a, b, c, d) | _ => None end.
Definition d_entry (s : sexp) : option sdentry :=
  match s with
  | L [A t; A sid; A iid; A maj; A ttl; A val; o1; o2; idx] =>
      let? o1' := dlist d_opt o1 in let? o2' := dlist d_opt o2 in
      let? idx' := dopt d_idx idx in
      Some (mkEntry t sid iid maj ttl val o1' o2' idx')
  | _ => None
  end.
Definition d_sd (s : sexp) : option sdheader :=
  match s with
  | L [es; os; rb; uc; A fu] =>
      let? es' := dlist d_entry es in let? os' := dlist d_opt os in
      let? rb' := dbool rb in let? uc' := dbool uc in
      Some (mkSd es' os' rb' uc' fu)
  | _ => None
  end.
Definition d_msg (s : sexp) : option someip :=
  match s with
  | L [A sid; A mid; A cid; A sess; A iv; A mt; A pv; A rc; p] =>
      let? p' := dB p in Some (mkMsg sid mid cid sess iv mt pv rc p')
  | _ => None
  end.
