(* sd.py: _SessionStorage (reboot detection, outgoing session ids).  Addresses are opaque
   numbers (the harness maps them to socket address tuples); a destination is
   Some addr or None (= the default multicast destination).  Single-threaded: the
   outgoing_lock is not modelled. *)
From PS Require Import Lib.Base.

Definition addr := N.
Definition in_key := (addr * bool)%type.
Definition in_key_eqb (a b : in_key) : bool := (fst a =? fst b) && Bool.eqb (snd a) (snd b).
Definition dest := option addr.
Definition dest_eqb : dest -> dest -> bool := opt_eqb N.eqb.

Record sess := mkSess {
  incoming : list (in_key * (bool * N));
  outgoing : list (dest * (bool * N)) }.

Definition sess_init : sess := mkSess [] [].

(* check_received: the try / except KeyError / finally flattened *)
Definition check_received (s : sess) (sender : addr) (mc flag : bool) (sid : N) : bool * sess :=
  let k := (sender, mc) in
  let s' := mkSess (aset in_key_eqb k (flag, sid) (incoming s)) (outgoing s) in
  match aget in_key_eqb k (incoming s) with
  | Some (old_flag, old_sid) =>
      (flag && (negb old_flag || ((0 <? old_sid) && (sid <=? old_sid))), s')
  | None => (false, s')
  end.

Definition out_get (s : sess) (d : dest) : bool * N :=
  match aget dest_eqb d (outgoing s) with Some v => v | None => (true, 1) end.

Definition assign_outgoing (s : sess) (d : dest) : (bool * N) * sess :=
  let '(flag, id) := out_get s d in
  let nxt := if 65535 <=? id then (false, 1) else (flag, id + 1) in
  ((flag, id), mkSess (incoming s) (aset dest_eqb d nxt (outgoing s))).

(* a history of received messages, as the property quantifies over *)
Definition rx := (addr * bool * bool * N)%type.  (* sender, multicast?, flag, session id *)

Fixpoint run_check (s : sess) (h : list rx) : list bool :=
  match h with
  | [] => []
  | (a, mc, f, sid) :: r => let '(b, s') := check_received s a mc f sid in b :: run_check s' r
  end.

Fixpoint run_assign (s : sess) (ds : list dest) : list (bool * N) :=
  match ds with
  | [] => []
  | d :: r => let '(v, s') := assign_outgoing s d in v :: run_assign s' r
  end.
