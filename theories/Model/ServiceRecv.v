(* service.py: SimpleService.message_received decision chain, send_error_response,
   send_positive_response.  The handler's behaviour is an input. *)
From PS Require Import Lib.Base Generated.Consts Model.SdTypes.

Inductive hres := HBytes (p : bytes) | HNone | HMalformed.

Definition error_response (m : someip) (rc : N) : someip :=
  mkMsg (m_sid m) (m_mid m) (m_cid m) (m_sess m) (m_iv m) MT_ERROR (m_pv m) rc [].
Definition positive_response (m : someip) (p : bytes) : someip :=
  mkMsg (m_sid m) (m_mid m) (m_cid m) (m_sess m) (m_iv m) MT_RESPONSE (m_pv m) (m_rc m) p.

(* returns (reply if any, handler called?) *)
Definition service_receive (svc_id ver : N) (methods : list N) (m : someip) (mc : bool) (h : hres)
  : option someip * bool :=
  if mc then (None, false) else
  if negb (m_sid m =? svc_id) then (Some (error_response m RC_E_UNKNOWN_SERVICE), false) else
  if negb (m_iv m =? ver) then (Some (error_response m RC_E_WRONG_INTERFACE_VERSION), false) else
  if negb (memN (m_mid m) methods) then (Some (error_response m RC_E_UNKNOWN_METHOD), false) else
  if negb ((m_mt m =? MT_REQUEST) || (m_mt m =? MT_REQUEST_NO_RETURN))
  then (Some (error_response m RC_E_WRONG_MESSAGE_TYPE), false) else
  if negb (m_rc m =? RC_E_OK) then (Some (error_response m RC_E_WRONG_MESSAGE_TYPE), false) else
  match h with
  | HMalformed => (Some (error_response m RC_E_MALFORMED_MESSAGE), true)
  | HNone => (None, true)
  | HBytes p => if m_mt m =? MT_REQUEST then (Some (positive_response m p), true) else (None, true)
  end.

Definition d_hres (s : sexp) : option hres :=
  match s with
  | L [A 0; p] => let? p' := dB p in Some (HBytes p')
  | L [A 1] => Some HNone
  | L [A 2] => Some HMalformed
  | _ => None
  end.
