(* config.py: Service, Eventgroup, the matching functions, conversions to/from SD entries. *)
From PS Require Import Lib.Base Generated.Consts Model.SdTypes.

(* eventgroups: frozenset of ids, kept as a list; only membership is ever used *)
Record service := mkService {
  s_sid : N; s_iid : N; s_maj : N; s_min : N;
  s_opts1 : list sdopt; s_opts2 : list sdopt; s_egs : list N }.

(* sockname: abstract numeric socket name (family 4|6, packed address bytes, port);
   socket.getnameinfo(NI_NUMERICHOST|NI_NUMERICSERV) + ipaddress.ip_address is the identity on it *)
Record sockname := mkSock { sk_v6 : bool; sk_addr : bytes; sk_port : N }.

Record eventgroup := mkEg {
  g_sid : N; g_iid : N; g_maj : N; g_id : N; g_sock : sockname; g_proto : N }.

(* literals as written in config.py *)
Definition W_IID : N := 65535.      (* 0xFFFF *)
Definition W_MAJ : N := 255.        (* 0xFF *)
Definition W_MIN : N := 4294967295. (* 0xFFFFFFFF *)

Definition is_find_or_offer (t : N) : bool := (t =? ET_FindService) || (t =? ET_OfferService).
Definition is_sub_or_ack (t : N) : bool := (t =? ET_Subscribe) || (t =? ET_SubscribeAck).

(* SOMEIPSDEntry.service_minor_version / eventgroup_id / eventgroup_counter (TypeError otherwise) *)
Definition entry_minver (e : sdentry) : result N :=
  if is_find_or_offer (e_type e) then Ok (e_val e) else Err EType.
Definition entry_eg_id (e : sdentry) : result N :=
  if is_sub_or_ack (e_type e) then Ok (N.land (e_val e) 65535) else Err EType.
Definition entry_eg_counter (e : sdentry) : result N :=
  if is_sub_or_ack (e_type e) then Ok (N.land (N.shiftr (e_val e) 16) 15) else Err EType.

Definition matches_offer (s : service) (e : sdentry) : result bool :=
  if negb (e_type e =? ET_OfferService) then Err EValue else
  if negb (s_sid s =? e_sid e) then Ok false else
  if negb (s_iid s =? W_IID) && negb (s_iid s =? e_iid e) then Ok false else
  if negb (s_maj s =? W_MAJ) && negb (s_maj s =? e_maj e) then Ok false else
  if negb (s_min s =? W_MIN) && negb (s_min s =? e_val e) then Ok false else
  Ok true.

Definition matches_find (s : service) (e : sdentry) : result bool :=
  if negb (e_type e =? ET_FindService) then Err EValue else
  if negb (s_sid s =? e_sid e) then Ok false else
  if negb (e_iid e =? W_IID) && negb (s_iid s =? e_iid e) then Ok false else
  if negb (e_maj e =? W_MAJ) && negb (s_maj s =? e_maj e) then Ok false else
  if negb (e_val e =? W_MIN) && negb (s_min s =? e_val e) then Ok false else
  Ok true.

Definition matches_subscribe (s : service) (e : sdentry) : result bool :=
  if negb (e_type e =? ET_Subscribe) then Err EValue else
  if negb (s_sid s =? e_sid e) then Ok false else
  if negb (s_iid s =? W_IID) && negb (s_iid s =? e_iid e) then Ok false else
  if negb (s_maj s =? W_MAJ) && negb (s_maj s =? e_maj e) then Ok false else
  Ok (memN (N.land (e_val e) 65535) (s_egs s)).

Definition matches_service (a b : service) : bool :=
  if negb (s_sid a =? s_sid b) then false else
  if negb (s_iid a =? W_IID) && negb (s_iid b =? W_IID) && negb (s_iid a =? s_iid b) then false else
  if negb (s_maj a =? W_MAJ) && negb (s_maj b =? W_MAJ) && negb (s_maj a =? s_maj b) then false else
  if negb (s_min a =? W_MIN) && negb (s_min b =? W_MIN) && negb (s_min a =? s_min b) then false else
  true.

Definition create_find_entry (s : service) (ttl : N) : sdentry :=
  mkEntry ET_FindService (s_sid s) (s_iid s) (s_maj s) ttl (s_min s) [] [] None.

Definition create_offer_entry (s : service) (ttl : N) : sdentry :=
  mkEntry ET_OfferService (s_sid s) (s_iid s) (s_maj s) ttl (s_min s) (s_opts1 s) (s_opts2 s) None.

Definition from_offer_entry (e : sdentry) : result service :=
  if negb (e_type e =? ET_OfferService) then Err EValue else
  match e_idx e with
  | Some _ => Err EValue
  | None => Ok (mkService (e_sid e) (e_iid e) (e_maj e) (e_val e) (e_opts1 e) (e_opts2 e) [])
  end.

(* Service.__eq__ / __hash__: options are compare=False, eventgroups compared as a set;
   every service the library itself builds for a store key has eventgroups = {} *)
Definition subsetN (a b : list N) : bool := forallb (fun x => memN x b) a.
Definition service_eqb (a b : service) : bool :=
  (s_sid a =? s_sid b) && (s_iid a =? s_iid b) && (s_maj a =? s_maj b) && (s_min a =? s_min b)
  && subsetN (s_egs a) (s_egs b) && subsetN (s_egs b) (s_egs a).

Definition sockaddr_to_endpoint (sk : sockname) (proto : N) : sdopt :=
  OIP (if sk_v6 sk then 5 else 2) (sk_addr sk) proto (sk_port sk).

Definition create_subscribe_entry (g : eventgroup) (ttl counter : N) : sdentry :=
  mkEntry ET_Subscribe (g_sid g) (g_iid g) (g_maj g) ttl
          (N.lor (N.shiftl counter 16) (g_id g))
          [sockaddr_to_endpoint (g_sock g) (g_proto g)] [] None.

Definition as_service (g : eventgroup) : service :=
  mkService (g_sid g) (g_iid g) (g_maj g) WILD_MINOR [] [] [].

Definition for_service (g : eventgroup) (s : service) : option eventgroup :=
  match matches_offer (as_service g) (create_offer_entry s 3) with
  | Ok true => Some (mkEg (g_sid g) (s_iid s) (s_maj s) (g_id g) (g_sock g) (g_proto g))
  | _ => None
  end.

Definition sockname_eqb (a b : sockname) : bool :=
  Bool.eqb (sk_v6 a) (sk_v6 b) && list_eqb N.eqb (sk_addr a) (sk_addr b) && (sk_port a =? sk_port b).
Definition eventgroup_eqb (a b : eventgroup) : bool :=
  (g_sid a =? g_sid b) && (g_iid a =? g_iid b) && (g_maj a =? g_maj b) && (g_id a =? g_id b)
  && sockname_eqb (g_sock a) (g_sock b) && (g_proto a =? g_proto b).

(* ---- s-expression forms ---- *)
Definition s_service (s : service) : sexp :=
  L [A (s_sid s); A (s_iid s); A (s_maj s); A (s_min s);
     slist s_opt (s_opts1 s); slist s_opt (s_opts2 s); L (map A (s_egs s))].
Definition d_service (x : sexp) : option service :=
  match x with
  | L [A a; A b; A c; A d; o1; o2; eg] =>
      let? o1' := dlist d_opt o1 in let? o2' := dlist d_opt o2 in
      let? eg' := dlist dN eg in Some (mkService a b c d o1' o2' eg')
  | _ => None
  end.
Definition s_sock (k : sockname) : sexp := L [sbool (sk_v6 k); B (sk_addr k); A (sk_port k)].
Definition d_sock (x : sexp) : option sockname :=
  match x with
  | L [v; a; A p] => let? v' := dbool v in let? a' := dB a in Some (mkSock v' a' p)
  | _ => None
  end.
Definition s_eg (g : eventgroup) : sexp :=
  L [A (g_sid g); A (g_iid g); A (g_maj g); A (g_id g); s_sock (g_sock g); A (g_proto g)].
Definition d_eg (x : sexp) : option eventgroup :=
  match x with
  | L [A a; A b; A c; A d; k; A p] => let? k' := d_sock k in Some (mkEg a b c d k' p)
  | _ => None
  end.
