(* header.py: SD options, SD entries, option index assignment (_find), SD header. *)
From PS Require Import Lib.Base Lib.Struct Generated.Consts Model.SdTypes.

(* ------------------------------------------------------------------ options *)

Definition build_option_hdr (ty : N) (buf : bytes) : result bytes :=
  do h <- pack fmt_sdoption [VI (len buf); VI ty]; Ok (h ++ buf).

(* str.encode("ascii") *)
Definition encode_ascii (s : list N) : result bytes :=
  if forallb (fun c => c <? 128) s then Ok s else Err EUnicode.
(* bytes.decode("ascii") *)
Definition decode_ascii (b : bytes) : result (list N) :=
  if forallb (fun c => c <? 128) b then Ok b else Err EUnicode.

(* bytearray.append(x): ValueError unless 0 <= x < 256 *)
Definition byte_append (buf : bytes) (x : N) : result bytes :=
  if x <? 256 then Ok (buf ++ [x]) else Err EValue.

Fixpoint build_cfgs (buf : bytes) (cfgs : list (list N * option (list N))) : result bytes :=
  match cfgs with
  | [] => Ok buf
  | (k, Some v) :: r =>
      do buf1 <- byte_append buf (len k + len v + 1);
      do kb <- encode_ascii k;
      do vb <- encode_ascii v;
      build_cfgs (buf1 ++ kb ++ [61] ++ vb) r
  | (k, None) :: r =>
      do buf1 <- byte_append buf (len k);
      do kb <- encode_ascii k;
      build_cfgs (buf1 ++ kb) r
  end.

Definition cls_type (c : N) : N :=
  match c with
  | 2 => OT_2 | 3 => OT_3 | 4 => OT_4 | 5 => OT_5 | 6 => OT_6 | 7 => OT_7 | _ => 0
  end.

Definition build_option (o : sdopt) : result bytes :=
  match o with
  | OUnknown ty p => build_option_hdr ty p
  | OLoadBal prio w =>
      do b <- pack [U8; U16; U16] [VI 0; VI prio; VI w]; build_option_hdr OT_0 b
  | OConfig cfgs =>
      do buf <- build_cfgs [0] cfgs; build_option_hdr OT_1 (buf ++ [0])
  | OIP c addr proto port =>
      do b <- pack (if is_v6_cls c then fmt_ipv6 else fmt_ipv4) [VI 0; VB addr; VI 0; VI proto; VI port];
      build_option_hdr (cls_type c) b
  end.

Definition find_byte (x : N) (b : bytes) : option nat :=
  (fix go (i : nat) (l : bytes) : option nat :=
     match l with [] => None | y :: r => if y =? x then Some i else go (S i) r end) O b.

(* SOMEIPSDConfigOption.parse_option's while loop; b is the buffer after nextlen was popped *)
Fixpoint parse_cfgs (fuel : nat) (nextlen : N) (b : bytes) (acc : list (list N * option (list N)))
  : result (list (list N * option (list N))) :=
  if nextlen =? 0 then Ok (rev acc) else
  match fuel with
  | O => Err EFuel
  | S f =>
      if len b <? nextlen + 1 then Err EParse else
      let cfg := takeN nextlen b in
      let b' := dropN nextlen b in
      do item <-
        match find_byte 61 cfg with
        | None => do k <- decode_ascii cfg; Ok (k, None)
        | Some i => do k <- decode_ascii (firstn i cfg);
                    do v <- decode_ascii (skipn (S i) cfg); Ok (k, Some v)
        end;
      match b' with
      | [] => Err EFuel
      | nl :: b'' => parse_cfgs f nl b'' (item :: acc)
      end
  end.

Definition parse_option_body (cls : N) (buf : bytes) : result sdopt :=
  match cls with
  | 0 => if negb (len buf =? 5) then Err EParse else
         match unpack_all [U16; U16] (dropN 1 buf) with
         | [VI p; VI w] => Ok (OLoadBal p w)
         | _ => Err EFuel
         end
  | 1 => if len buf <? 2 then Err EParse else
         match dropN 1 buf with
         | nl :: b => do c <- parse_cfgs (length buf) nl b []; Ok (OConfig c)
         | [] => Err EFuel
         end
  | c => let f := if is_v6_cls c then fmt_ipv6 else fmt_ipv4 in
         if negb (len buf =? fmt_size f) then Err EParse else
         match unpack_all f buf with
         | [VI _; VB a; VI _; VI proto; VI port] => Ok (OIP c a proto port)
         | _ => Err EFuel
         end
  end.

Definition registry_get (ty : N) : option N := aget N.eqb ty opt_registry.

Definition parse_option (buf : bytes) : result (sdopt * bytes) :=
  do (vs, rest) <- unpack fmt_sdoption buf;
  match vs with
  | [VI l; VI ty] =>
      if len rest <? l then Err EParse else
      let ob := takeN l rest in
      let rest' := dropN l rest in
      match registry_get ty with
      | None => Ok (OUnknown ty ob, rest')
      | Some cls => do o <- parse_option_body cls ob; Ok (o, rest')
      end
  | _ => Err EFuel
  end.

(* ------------------------------------------------------------------ entries *)

Definition build_entry (e : sdentry) : result bytes :=
  match e_idx e with
  | None => Err EValue
  | Some (oi1, oi2, no1, no2) =>
      if negb ((no1 <? 16) && (no2 <? 16)) then Err EStruct else
      (* Subscribe / SubscribeAck: 12 reserved bits, counter (4) and eventgroup id (16) - repaired defect F19 *)
      if ((e_type e =? ET_Subscribe) || (e_type e =? ET_SubscribeAck)) && negb (N.land (e_val e) 4293918720 =? 0)
      then Err EStruct else
      pack fmt_sdentry
        [VI (e_type e); VI oi1; VI oi2; VI (N.lor (N.shiftl no1 4) no2); VI (e_sid e); VI (e_iid e);
         VI (e_maj e); VI (N.shiftr (e_ttl e) 16); VI (N.land (e_ttl e) 65535); VI (e_val e)]
  end.

Definition parse_entry (buf : bytes) (num_options : N) : result (sdentry * bytes) :=
  do (vs, rest) <- unpack fmt_sdentry buf;
  match vs with
  | [VI ty; VI oi1; VI oi2; VI numopt; VI sid; VI iid; VI maj; VI ttl_hi; VI ttl_lo; VI val] =>
      if negb (memN ty entry_type_values) then Err EParse else
      let no1 := N.shiftr numopt 4 in
      let no2 := N.land numopt 15 in
      let ttl := N.lor (N.shiftl ttl_hi 16) ttl_lo in
      if num_options <? oi1 + no1 then Err EParse else
      if num_options <? oi2 + no2 then Err EParse else
      if ((ty =? ET_Subscribe) || (ty =? ET_SubscribeAck)) && negb (N.land val 4293918720 =? 0)
      then Err EParse else
      Ok (mkEntry ty sid iid maj ttl val [] [] (Some (oi1, oi2, no1, no2)), rest)
  | _ => Err EFuel
  end.

Definition resolve_entry (e : sdentry) (options : list sdopt) : result sdentry :=
  match e_idx e with
  | None => Err EValue
  | Some (oi1, oi2, no1, no2) =>
      Ok (mkEntry (e_type e) (e_sid e) (e_iid e) (e_maj e) (e_ttl e) (e_val e)
                  (takeN no1 (dropN oi1 options)) (takeN no2 (dropN oi2 options)) None)
  end.

(* ---- _find: Boyer-Moore-Horspool over option sequences ---- *)
(* skip = {needle[i]: n-i-1 for i in range(n-1)}; skip.get(x, n): the LAST i < n-1 with needle[i] == x *)
Fixpoint skip_scan (needle : list sdopt) (n i : N) (x : sdopt) (cur : N) : N :=
  match needle with
  | [] => cur
  | y :: r =>
      let cur' := if (i + 1 <? n) && sdopt_eqb y x then n - i - 1 else cur in
      skip_scan r n (i + 1) x cur'
  end.
Definition skip_of (needle : list sdopt) (x : sdopt) : N :=
  skip_scan needle (len needle) 0 x (len needle).

Fixpoint find_loop (fuel : nat) (h needle : list sdopt) (n hl i : N) : result (option N) :=
  match fuel with
  | O => Err EFuel
  | S f =>
      if i <? hl then
        if list_eqb sdopt_eqb (takeN n (dropN (i + 1 - n) h)) needle then Ok (Some (i + 1 - n))
        else match nth_opt h (N.to_nat i) with
             | Some x => find_loop f h needle n hl (i + skip_of needle x)
             | None => Err EFuel
             end
      else Ok None
  end.

(* only called with a non-empty needle *)
Definition find_run (h needle : list sdopt) : result (option N) :=
  find_loop (S (length h)) h needle (len needle) (len h) (len needle - 1).

(* _assign_option: returns (oi, no) and the extended shared array *)
Definition assign_option (run hdr : list sdopt) : result ((N * N) * list sdopt) :=
  match run with
  | [] => Ok ((0, 0), hdr)
  | _ =>
      do r <- find_run hdr run;
      match r with
      | Some oi => Ok ((oi, len run), hdr)
      | None => Ok ((len hdr, len run), hdr ++ run)
      end
  end.

Definition assign_entry (e : sdentry) (hdr : list sdopt) : result (sdentry * list sdopt) :=
  match e_idx e with
  | Some _ => Ok (e, hdr)
  | None =>
      do ((oi1, no1), h1) <- assign_option (e_opts1 e) hdr;
      do ((oi2, no2), h2) <- assign_option (e_opts2 e) h1;
      Ok (mkEntry (e_type e) (e_sid e) (e_iid e) (e_maj e) (e_ttl e) (e_val e) [] []
                  (Some (oi1, oi2, no1, no2)), h2)
  end.

Fixpoint assign_entries (es : list sdentry) (hdr : list sdopt) : result (list sdentry * list sdopt) :=
  match es with
  | [] => Ok ([], hdr)
  | e :: r =>
      do (e', h1) <- assign_entry e hdr;
      do (r', h2) <- assign_entries r h1;
      Ok (e' :: r', h2)
  end.

(* ------------------------------------------------------------------ SD header *)

Definition assign_sd (h : sdheader) : result sdheader :=
  do (es, opts) <- assign_entries (sd_entries h) (sd_options h);
  Ok (mkSd es opts (sd_reboot h) (sd_unicast h) (sd_flags_unknown h)).

Fixpoint resolve_entries (es : list sdentry) (opts : list sdopt) : result (list sdentry) :=
  match es with
  | [] => Ok []
  | e :: r => do e' <- resolve_entry e opts; do r' <- resolve_entries r opts; Ok (e' :: r')
  end.
Definition resolve_sd (h : sdheader) : result sdheader :=
  do es <- resolve_entries (sd_entries h) (sd_options h);
  Ok (mkSd es (sd_options h) (sd_reboot h) (sd_unicast h) (sd_flags_unknown h)).

Fixpoint concat_map_res {X} (f : X -> result bytes) (l : list X) : result bytes :=
  match l with
  | [] => Ok []
  | x :: r => do b <- f x; do rb <- concat_map_res f r; Ok (b ++ rb)
  end.

Definition build_sd (h : sdheader) : result bytes :=
  let flags := N.lor (N.lor (sd_flags_unknown h) (if sd_reboot h then 128 else 0))
                     (if sd_unicast h then 64 else 0) in
  do hd <- byte_append [] flags;
  do eb <- concat_map_res build_entry (sd_entries h);
  do ob <- concat_map_res build_option (sd_options h);
  do le <- pack [U32] [VI (len eb)];
  do lo <- pack [U32] [VI (len ob)];
  Ok (hd ++ [0; 0; 0] ++ le ++ eb ++ lo ++ ob).

Fixpoint parse_options (fuel : nat) (b : bytes) (acc : list sdopt) : result (list sdopt) :=
  match b with
  | [] => Ok (rev acc)
  | _ => match fuel with
         | O => Err EFuel
         | S f => do (o, rest) <- parse_option b; parse_options f rest (o :: acc)
         end
  end.

Fixpoint parse_entries (fuel : nat) (b : bytes) (nopts : N) (acc : list sdentry) : result (list sdentry) :=
  match b with
  | [] => Ok (rev acc)
  | _ => match fuel with
         | O => Err EFuel
         | S f => do (e, rest) <- parse_entry b nopts; parse_entries f rest nopts (e :: acc)
         end
  end.

Definition parse_sd (buf : bytes) : result (sdheader * bytes) :=
  if len buf <? 12 then Err EParse else
  let flags := match buf with f :: _ => f | [] => 0 end in
  let entries_length := unbe (takeN 4 (dropN 4 buf)) in
  let rest := dropN 8 buf in
  if len rest <? entries_length + 4 then Err EParse else
  let eb := takeN entries_length rest in
  let rest1 := dropN entries_length rest in
  let options_length := unbe (takeN 4 rest1) in
  let rest2 := dropN 4 rest1 in
  if len rest2 <? options_length then Err EParse else
  let ob := takeN options_length rest2 in
  let rest3 := dropN options_length rest2 in
  do opts <- parse_options (S (length ob)) ob [];
  do es <- parse_entries (S (length eb)) eb (len opts) [];
  Ok (mkSd es opts (negb (N.land flags 128 =? 0)) (negb (N.land flags 64 =? 0)) (N.land flags 63),
      rest3).
