(* s-expression forms of scenarios and traces for the stack model. *)
From PS Require Import Lib.Base Generated.Consts Model.SdTypes Model.Config Model.Session Model.StackTypes Model.Stack.

Definition d_dest (s : sexp) : option dest := dopt dN s.
Definition s_dest (d : dest) : sexp := sopt A d.

Definition d_timings (s : sexp) : option timings :=
  match s with
  | L [A a; A b; A c; A d; A e; A f; A g; A h; A i; A j; r; A k] =>
      let? r' := dopt dN r in Some (mkTimings a b c d e f g h i j r' k)
  | _ => None
  end.

Definition d_listener (s : sexp) : option listener :=
  match s with
  | L [A 0; A id] => Some (LRec id)
  | L [A 1; g] => let? g' := d_eg g in Some (LAuto g')
  | _ => None
  end.

Definition d_api0 (s : sexp) : option api :=
  match s with
  | L [A 0] => Some ApiStart
  | L [A 1] => Some ApiStop
  | L [A 2] => Some ApiConnLost
  | L [A 3; f; l] => let? f' := d_service f in let? l' := d_listener l in Some (ApiWatch f' l')
  | L [A 4; f; l] => let? f' := d_service f in let? l' := d_listener l in Some (ApiUnwatch f' l')
  | L [A 5; l] => let? l' := d_listener l in Some (ApiWatchAll l')
  | L [A 6; l] => let? l' := d_listener l in Some (ApiUnwatchAll l')
  | L [A 7; g] => let? g' := d_eg g in Some (ApiFindSub g')
  | L [A 8; g] => let? g' := d_eg g in Some (ApiStopFindSub g')
  | L [A 9; g; A ep] => let? g' := d_eg g in Some (ApiSubscribe g' ep)
  | L [A 10; g; A ep; b] => let? g' := d_eg g in let? b' := dbool b in Some (ApiStopSubscribe g' ep b')
  | L [A 11] => Some ApiSubStart
  | L [A 12; b] => let? b' := dbool b in Some (ApiSubStop b')
  | L [A 13] => Some ApiDiscStart
  | L [A 14] => Some ApiDiscStop
  | L [A 15] => Some ApiAnnStart
  | L [A 16] => Some ApiAnnStop
  | L [A 17; A i] => Some (ApiAnnounce i)
  | L [A 18; A i; b] => let? b' := dbool b in Some (ApiStopAnnounce i b')
  | L [A 19; e; d] => let? e' := d_entry e in let? d' := d_dest d in Some (ApiQueueSend e' d')
  | L [A 20; es; d] => let? es' := dlist d_entry es in let? d' := d_dest d in Some (ApiSendSd es' d')
  | L [A 21; A i; egs] => let? egs' := dlist dN egs in Some (ApiSetReject i egs')
  | _ => None
  end.
(* 22, 23, 24: the call is made one, two, three loop iterations after the instant's first *)
Definition d_api (s : sexp) : option api :=
  match s with
  | L [A 22; c] => let? c' := d_api0 c in Some (ApiSoon c')
  | L [A 23; c] => let? c' := d_api0 c in Some (ApiSoon (ApiSoon c'))
  | L [A 24; c] => let? c' := d_api0 c in Some (ApiSoon (ApiSoon (ApiSoon c')))
  | _ => d_api0 s
  end.

Definition d_event_in (s : sexp) : option (N * handle) :=
  match s with
  | L [A t; L [A 0; A from; mc; data]] =>
      let? mc' := dbool mc in let? data' := dB data in Some (t, HDatagram from mc' data')
  | L [A t; L [A 1; c]] => let? c' := d_api c in Some (t, HApi c')
  | _ => None
  end.

Definition d_inst (s : sexp) : option (N * inst) :=
  match s with
  | L [A i; svc; rej] => let? svc' := d_service svc in let? rej' := dlist dN rej in
                         Some (i, mkInst svc' rej' None false [])
  | _ => None
  end.

Record scenario := mkScenario {
  sc_cfg : timings; sc_insts : list (N * inst); sc_draws : list N; sc_events : list (N * handle);
  sc_end : N; sc_rev : bool; sc_fuel : N }.

Definition d_scenario (s : sexp) : option scenario :=
  match s with
  | L [c; ins; dr; ev; A t_end; rv; A fuel] =>
      let? c' := d_timings c in let? ins' := dlist d_inst ins in let? dr' := dlist dN dr in
      let? ev' := dlist d_event_in ev in let? rv' := dbool rv in
      Some (mkScenario c' ins' dr' ev' t_end rv' fuel)
  | _ => None
  end.

Definition init_world (sc : scenario) : world :=
  mkWorld 0 [] [] [] 1 (sc_cfg sc) sess_init false None [] [] [] [] None false [] (sc_insts sc) [] [] []
          (sc_draws sc) [] [].

Definition run_scenario (sc : scenario) : world * bool :=
  run (N.to_nat (sc_fuel sc)) (sc_events sc) (sc_end sc) (sc_rev sc) (init_world sc).

Definition s_sub (s : subscription) : sexp :=
  L [A (sb_sid s); A (sb_iid s); A (sb_maj s); A (sb_id s); A (sb_counter s); A (sb_ttl s);
     slist s_opt (sb_endpoints s); slist s_opt (sb_options s)].
Definition d_sub (s : sexp) : option subscription :=
  match s with
  | L [A a; A b; A c; A d; A e; A f; eps; os] =>
      let? eps' := dlist d_opt eps in let? os' := dlist d_opt os in Some (mkSub a b c d e f eps' os')
  | _ => None
  end.

Definition s_event (e : event) : sexp :=
  match e with
  | ESent d data => L [A 0; s_dest d; B data]
  | EOffered l s a => L [A 1; A l; s_service s; A a]
  | EStopped l s a => L [A 2; A l; s_service s; A a]
  | ESubscribed i s a ok => L [A 3; A i; s_sub s; A a; sbool ok]
  | EUnsubscribed i s a => L [A 4; A i; s_sub s; A a]
  | ERaised c => L [A 5; A c]
  end.
Definition d_event (s : sexp) : option event :=
  match s with
  | L [A 0; d; data] => let? d' := d_dest d in let? data' := dB data in Some (ESent d' data')
  | L [A 1; A l; sv; A a] => let? sv' := d_service sv in Some (EOffered l sv' a)
  | L [A 2; A l; sv; A a] => let? sv' := d_service sv in Some (EStopped l sv' a)
  | L [A 3; A i; sb; A a; ok] => let? sb' := d_sub sb in let? ok' := dbool ok in Some (ESubscribed i sb' a ok')
  | L [A 4; A i; sb; A a] => let? sb' := d_sub sb in Some (EUnsubscribed i sb' a)
  | L [A 5; A c] => Some (ERaised c)
  | _ => None
  end.
Definition trace := list (N * event).
Definition s_trace (t : trace) : sexp := slist (fun p => L [A (fst p); s_event (snd p)]) t.
Definition d_trace (s : sexp) : option trace :=
  dlist (fun x => match x with L [A t; e] => let? e' := d_event e in Some (t, e') | _ => None end) s.

Definition s_key (k : key) : sexp :=
  match k with KService s => L [A 0; s_service s] | KSub s => L [A 1; s_sub s] end.
Definition s_store (s : store) : sexp :=
  slist (fun p => L [A (fst p); slist (fun q => L [s_key (fst q); sbool (match snd q with Some _ => true | None => false end)]) (snd p)])
        (filter (fun p => match snd p with [] => false | _ => true end) s).

Definition s_final (w : world) : sexp :=
  L [s_store (found w);
     slist (fun p => L [A (fst p); s_store (in_subs (snd p)); sbool (in_can_answer (snd p));
                        sbool (match in_task (snd p) with Some _ => true | None => false end)]) (insts w);
     slist (fun p => L [s_eg (fst p); A (snd p)]) (sub_entries w);
     sbool (sub_alive w); sbool (ann_started w); A (now w)].

Definition trace_of (w : world) : trace := rev (out w).

(* the ghost history, oldest first, for the comparison with the implementation's call history:
   (t 0 entry dest) = queue_send, (t 1 dest entries) = a collector hands over, (t 2 entries dest) = send_sd,
   (t 3 store address key ttl) = TimedStore.refresh stores the entry, (t 4 store address key) = TimedStore._expired removes it *)
Definition s_store_id (st : store_id) : sexp := match st with SFound => L [] | SSubs i => L [A i] end.
Definition s_gev (p : N * gev) : sexp :=
  match snd p with
  | GQueue e d => L [A (fst p); A 0; s_entry e; s_dest d]
  | GFlush d es => L [A (fst p); A 1; s_dest d; slist s_entry es]
  | GSend es d _ _ => L [A (fst p); A 2; slist s_entry es; s_dest d]
  | GRefresh st a k ttl => L [A (fst p); A 3; s_store_id st; A a; s_key k; A ttl]
  | GExpire st a k => L [A (fst p); A 4; s_store_id st; A a; s_key k]
  | GMulti l => L [A (fst p); A 5; A l]
  | GDupSub ep => L [A (fst p); A 6; A ep]
  end.
Definition s_glog (w : world) : sexp := slist s_gev (rev (glog w)).

Definition run_op (arg : sexp) : option sexp :=
  let? sc := d_scenario arg in
  let '(w, completed) := run_scenario sc in
  Some (L [s_trace (rev (out w)); sbool completed; s_final w; s_glog w]).
