(* The s-expression interface of the executable model: one entry point, used by the
   extracted OCaml runner and by the in-Coq vm_compute cross-check on identical input. *)
From PS Require Import Lib.Base Generated.Consts Model.SdTypes Model.Config.
From PS Require Import Lib.Struct Model.Someip Model.SdCodec Model.Session Model.ServiceRecv.
From PS Require Import Model.StackTypes Model.Stack Model.StackIO.
From PS Require Import Spec.TraceSpec Spec.StoreSpec Spec.AnnSpec.
From PS Require Import Spec.C19Spec Spec.C07Spec Spec.C16Spec Spec.C01Spec Spec.C02Spec.
From PS Require Model.ServiceStack Spec.C17Spec.
From PS Require Import Model.System Spec.C04Spec.

Definition bad : sexp := L [A 255; A 255; A 255].

Definition of_opt (o : option sexp) : sexp := match o with Some s => s | None => bad end.

Definition dispatch_config (op : N) (arg : sexp) : option sexp :=
  match op, arg with
  | 1901, L [s; e] => let? s' := d_service s in let? e' := d_entry e in Some (sres sbool (matches_offer s' e'))
  | 1902, L [s; e] => let? s' := d_service s in let? e' := d_entry e in Some (sres sbool (matches_find s' e'))
  | 1903, L [s; e] => let? s' := d_service s in let? e' := d_entry e in Some (sres sbool (matches_subscribe s' e'))
  | 1904, L [a; b] => let? a' := d_service a in let? b' := d_service b in Some (sbool (matches_service a' b'))
  | 1905, L [s; A ttl] => let? s' := d_service s in Some (s_entry (create_find_entry s' ttl))
  | 1906, L [s; A ttl] => let? s' := d_service s in Some (s_entry (create_offer_entry s' ttl))
  | 1907, e => let? e' := d_entry e in Some (sres s_service (from_offer_entry e'))
  | 1908, L [g; s] => let? g' := d_eg g in let? s' := d_service s in Some (sopt s_eg (for_service g' s'))
  | 1909, L [g; A ttl; A c] => let? g' := d_eg g in Some (s_entry (create_subscribe_entry g' ttl c))
  | 1910, g => let? g' := d_eg g in Some (s_service (as_service g'))
  | 1921, L [s; e] => let? s' := d_service s in let? e' := d_entry e in Some (sbool (spec_offer s' e'))
  | 1922, L [s; e] => let? s' := d_service s in let? e' := d_entry e in Some (sbool (spec_find s' e'))
  | 1923, L [s; e] => let? s' := d_service s in let? e' := d_entry e in Some (sbool (spec_subscribe s' e'))
  | 1924, L [a; b] => let? a' := d_service a in let? b' := d_service b in Some (sbool (spec_service a' b'))
  | 1911, L [a; b] => let? a' := d_service a in let? b' := d_service b in Some (sbool (service_eqb a' b'))
  | _, _ => None
  end.

Definition s_pair {X Y} (f : X -> sexp) (g : Y -> sexp) (p : X * Y) : sexp := L [f (fst p); g (snd p)].
Definition s_err (e : err) : sexp := A (err_code e).
Definition s_split (r : list someip * option err) : sexp := L [slist s_msg (fst r); sopt s_err (snd r)].

Definition dispatch_codec (op : N) (arg : sexp) : option sexp :=
  match op, arg with
  | 101, m => let? m' := d_msg m in Some (sres B (build_msg m'))
  | 102, b => let? b' := dB b in Some (sres (s_pair s_msg B) (parse_msg b'))
  | 103, b => let? b' := dB b in Some (s_split (datagram_split b'))
  | 104, b => let? b' := dB b in Some (sres (s_pair s_msg B) (read_msg b'))
  | 105, b => let? b' := dB b in Some (s_split (stream_split b'))
  | 111, m => let? m' := d_msg m in Some (B (spec_layout m'))
  | 112, m => let? m' := d_msg m in Some (sbool (wf_msgb m'))
  | 201, o => let? o' := d_opt o in Some (sres B (build_option o'))
  | 202, b => let? b' := dB b in Some (sres (s_pair s_opt B) (parse_option b'))
  | 203, e => let? e' := d_entry e in Some (sres B (build_entry e'))
  | 204, L [b; A n] => let? b' := dB b in Some (sres (s_pair s_entry B) (parse_entry b' n))
  | 205, h => let? h' := d_sd h in Some (sres s_sd (assign_sd h'))
  | 206, h => let? h' := d_sd h in Some (sres s_sd (resolve_sd h'))
  | 207, h => let? h' := d_sd h in Some (sres B (build_sd h'))
  | 208, b => let? b' := dB b in Some (sres (s_pair s_sd B) (parse_sd b'))
  | 209, h => let? h' := d_sd h in Some (sres B (do a <- assign_sd h'; build_sd a))
  | 210, b => let? b' := dB b in
              Some (sres (s_pair s_sd B) (do (h, r) <- parse_sd b'; do h' <- resolve_sd h; Ok (h', r)))
  | 212, b => let? b' := dB b in Some (sopt s_sd (ref_decode b'))
  | 213, L [m; b] => let? m' := d_sd m in let? b' := dB b in Some (sbool (check_C02 m' b'))
  | 211, L [h; n] => let? h' := dlist d_opt h in let? n' := dlist d_opt n in
                     Some (sres (sopt A) (find_run h' n'))
  | _, _ => None
  end.

Definition d_rx (s : sexp) : option rx :=
  match s with
  | L [A a; mc; f; A sid] => let? mc' := dbool mc in let? f' := dbool f in Some (a, mc', f', sid)
  | _ => None
  end.
Definition d_dest (s : sexp) : option dest := dopt dN s.
Definition s_fi (v : bool * N) : sexp := L [sbool (fst v); A (snd v)].

Definition dispatch_session (op : N) (arg : sexp) : option sexp :=
  match op with
  | 701 => let? h := dlist d_rx arg in Some (slist sbool (run_check sess_init h))
  | 702 => let? h := dlist d_rx arg in Some (slist sbool (spec_detect h))
  | 703 => let? h := dlist d_rx arg in Some (slist sbool (f12_positions h))
  | 801 => let? ds := dlist d_dest arg in Some (slist s_fi (run_assign sess_init ds))
  | _ => None
  end.

Definition dispatch_service (op : N) (arg : sexp) : option sexp :=
  match op, arg with
  | 1601, L [A svc; A ver; ms; m; mc; h] =>
      let? ms' := dlist dN ms in let? m' := d_msg m in let? mc' := dbool mc in let? h' := d_hres h in
      let r := service_receive svc ver ms' m' mc' h' in
      Some (L [sopt s_msg (fst r); sbool (snd r)])
  | 1602, L [A svc; A ver; ms; m; mc; h] =>
      let? ms' := dlist dN ms in let? m' := d_msg m in let? mc' := dbool mc in let? h' := d_hres h in
      Some (sopt s_msg (spec_reply svc ver ms' m' mc' h'))
  | _, _ => None
  end.

Definition check_op (f : scenario -> trace -> list N) (arg : sexp) : option sexp :=
  match arg with
  | L [sc; tr] => let? sc' := d_scenario sc in let? tr' := d_trace tr in Some (L (map A (f sc' tr')))
  | _ => None
  end.

Definition dispatch_check (op : N) (arg : sexp) : option sexp :=
  match op with
  | 3005 => check_op check_C05 arg
  | 3006 => check_op check_C06 arg
  | 3009 => check_op check_C09 arg
  | 3008 => check_op check_C08 arg
  | 3010 => check_op check_C10 arg
  | 3011 => check_op check_C11 arg
  | 3012 => check_op check_C12 arg
  | 3013 => check_op check_C13 arg
  | 3014 => check_op check_C14 arg
  | 3015 => check_op check_C15 arg
  | _ => None
  end.

Definition check17_op (arg : sexp) : option sexp :=
  match arg with
  | L [sc; tr] => let? sc' := ServiceStack.d_sscenario sc in let? tr' := ServiceStack.d_strace tr in Some (L (map A (C17Spec.check_C17 sc' tr')))
  | _ => None
  end.

Definition check04_op (arg : sexp) : option sexp :=
  match arg with
  | L [sc; ta; tb] => let? sc' := d_sys_scenario sc in let? ta' := d_trace ta in let? tb' := d_trace tb in
                      Some (L (map A (check_C04 sc' ta' tb')))
  | _ => None
  end.

Definition dispatch (op : N) (arg : sexp) : sexp :=
  if (1900 <? op) && (op <? 2000) then of_opt (dispatch_config op arg)
  else if (100 <? op) && (op <? 300) then of_opt (dispatch_codec op arg)
  else if (700 <? op) && (op <? 900) then of_opt (dispatch_session op arg)
  else if (1600 <? op) && (op <? 1700) then of_opt (dispatch_service op arg)
  else if op =? 3001 then of_opt (run_op arg)
  else if op =? 3201 then of_opt (ServiceStack.srun_op arg)
  else if op =? 3217 then of_opt (check17_op arg)
  else if op =? 3301 then of_opt (sys_run_op arg)
  else if op =? 3304 then of_opt (check04_op arg)
  else if (3001 <? op) && (op <? 3100) then of_opt (dispatch_check op arg)
  else bad.
