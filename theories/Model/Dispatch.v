(* The s-expression interface of the executable model: one entry point, used by the
   extracted OCaml runner and by the in-Coq vm_compute cross-check on identical input. *)
From PS Require Import Lib.Base Generated.Consts Model.SdTypes Model.Config.
From PS Require Import Spec.C19Spec.

Definition bad : sexp := L [A 255; A 255; A 255].

Definition of_opt (o : option sexp) : sexp := match o with Some s => s | None => bad end.

Definition dispatch_config (op : N) (arg : sexp) : option sexp :=
  match op, arg with
  | 1901, L [s; e] => let? s' := d_service s in let? e' := d_entry e in Some (sres sbool (matches_offer s' e'))
  | 1902, L [s; e] => let? s' := d_service s in let? e' := d_entry e in Some (sres sbool (matches_find s' e'))
  | 1903, L [s; e] => let? s' := d_service s in let? e' := d_entry e in Some (sres sbool (matches_subscribe s' e'))
  | 1904, L [a; b] => let? a' := d_service a in let? b' := d_service b in Some (sbool (matches_service a' b'))
  | 1905, L [s; A ttl] => let? s' := d_service s in Some (s_entry (create_find_entry s' ttl))
  | 1906, L [s; A ttl] => let? s' := d_service s in Some (s_entry (create_offer_entry s' ttl))
  | 1907, e => let? e' := d_entry e in Some (sres s_service (from_offer_entry e'))
  | 1908, L [g; s] => let? g' := d_eg g in let? s' := d_service s in Some (sopt s_eg (for_service g' s'))
  | 1909, L [g; A ttl; A c] => let? g' := d_eg g in Some (s_entry (create_subscribe_entry g' ttl c))
  | 1910, g => let? g' := d_eg g in Some (s_service (as_service g'))
  | 1921, L [s; e] => let? s' := d_service s in let? e' := d_entry e in Some (sbool (spec_offer s' e'))
  | 1922, L [s; e] => let? s' := d_service s in let? e' := d_entry e in Some (sbool (spec_find s' e'))
  | 1923, L [s; e] => let? s' := d_service s in let? e' := d_entry e in Some (sbool (spec_subscribe s' e'))
  | 1924, L [a; b] => let? a' := d_service a in let? b' := d_service b in Some (sbool (spec_service a' b'))
  | 1911, L [a; b] => let? a' := d_service a in let? b' := d_service b in Some (sbool (service_eqb a' b'))
  | _, _ => None
  end.

Definition dispatch (op : N) (arg : sexp) : sexp :=
  if (1900 <? op) && (op <? 2000) then of_opt (dispatch_config op arg)
  else bad.
