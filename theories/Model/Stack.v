(* The SD stack (sd.py: ServiceDiscoveryProtocol, ServiceSubscriber, ServiceDiscover, TimedStore,
   ServiceInstance, SendCollector, ServiceAnnouncer) executed on the event-loop model.
   Every function follows the Python code of the same name; "sync" = called directly. *)
From PS Require Import Lib.Base Lib.Struct Generated.Consts Model.SdTypes Model.Config Model.Session
  Model.Someip Model.SdCodec Model.StackTypes.

(* ------------------------------------------------------------------ loop primitives *)
(* out is kept newest-first (cons); StackIO reverses it when printing *)
Definition emit (e : event) (w : world) : world := set_out ((now w, e) :: out w) w.
(* ghost history, newest first *)
Definition ghost (g : gev) (w : world) : world := set_glog ((now w, g) :: glog w) w.
Definition call_soon (h : handle) (w : world) : world := set_ready (ready w ++ [(None, h)]) w.
Definition call_later (delay : N) (h : handle) (w : world) : N * world :=
  let tid := next_id w in
  (tid, set_next_id (tid + 1) (set_timers (timers w ++ [(now w + delay, tid, h)]) w)).
Definition cancel_timer (tid : N) (w : world) : world := set_cancelled (tid :: cancelled w) w.
Definition cancel_opt (t : option N) (w : world) : world :=
  match t with Some tid => cancel_timer tid w | None => w end.
(* random.uniform(lo, hi): the next oracle value, clamped into the window *)
Definition draw (lo hi : N) (w : world) : N * world :=
  match draws w with
  | [] => (lo, w)
  | d :: r => (N.max lo (N.min hi d), set_draws r w)
  end.

(* ------------------------------------------------------------------ tasks *)
Definition get_task (t : N) (w : world) : option task := aget N.eqb t (tasks w).
Definition put_task (t : N) (tk : task) (w : world) : world := set_tasks (aset N.eqb t tk (tasks w)) w.

Definition new_task (k : tkind) (w : world) : N * world :=
  let t := next_id w in
  (t, call_soon (HTaskWake t)
        (set_next_id (t + 1) (set_tasks (tasks w ++ [(t, mkTask k 0 0 false None false)]) w))).

Definition finish_task (t : N) (w : world) : world :=
  match get_task t w with
  | Some tk => put_task t (mkTask (tk_kind tk) (tk_pc tk) (tk_i tk) false None true) w
  | None => w
  end.

(* "await asyncio.sleep(d)" in task t, to be continued at (pc, i) *)
Definition task_sleep (t : N) (k : tkind) (d pc i : N) (w : world) : world :=
  if d =? 0 then call_soon (HTaskWake t) (put_task t (mkTask k pc i false None false) w)
  else let '(tid, w1) := call_later d (HSleepDone t) w in
       put_task t (mkTask k pc i false (Some tid) false) w1.

(* Task.cancel() *)
Definition cancel_task (t : N) (w : world) : world :=
  match get_task t w with
  | None => w
  | Some tk =>
      if tk_done tk then w else
      match tk_sleep tk with
      | Some tid =>
          call_soon (HTaskWake t)
            (cancel_timer tid (put_task t (mkTask (tk_kind tk) (tk_pc tk) (tk_i tk) true None false) w))
      | None => put_task t (mkTask (tk_kind tk) (tk_pc tk) (tk_i tk) true None false) w
      end
  end.

(* ------------------------------------------------------------------ send_sd *)
Definition sd_datagram (entries : list sdentry) (flag : bool) (sid : N) : result bytes :=
  do a <- assign_sd (mkSd entries [] flag true 0);
  do p <- build_sd a;
  build_msg (mkMsg SD_SERVICE SD_METHOD 0 sid 1 MT_NOTIFICATION 1 RC_E_OK p).

Definition send_sd (entries : list sdentry) (remote : dest) (w : world) : world :=
  match entries with
  | [] => w
  | _ =>
      let '((flag, sid), s') := assign_outgoing (sess w) remote in
      let w1 := set_sess s' (ghost (GSend entries remote flag sid) w) in
      match sd_datagram entries flag sid with
      | Ok b => emit (ESent remote b) w1
      | Err e => emit (ERaised (err_code e)) w1
      end
  end.

(* ------------------------------------------------------------------ SendCollector / queue_send *)
Definition queue_core (e : sdentry) (remote : dest) (w : world) : world :=
  if t_collect (cfg w) =? 0 then send_sd [e] remote (ghost (GFlush remote [e]) w) else
  let open :=
    match aget dest_eqb remote (queues w) with
    | Some c => match aget N.eqb c (collectors w) with
                | Some co => if co_done co then None else Some (c, co)
                | None => None
                end
    | None => None
    end in
  match open with
  | Some (c, co) =>
      set_collectors (aset N.eqb c (mkColl (co_dest co) (co_data co ++ [e]) false) (collectors w)) w
  | None =>
      let '(tid, w1) := call_later (t_collect (cfg w)) (HCollector (next_id w)) w in
      set_queues (aset dest_eqb remote tid (queues w1))
        (set_collectors (collectors w1 ++ [(tid, mkColl remote [e] false)]) w1)
  end.

Definition queue_send (e : sdentry) (remote : dest) (w : world) : world :=
  queue_core e remote (ghost (GQueue e remote) w).

Definition collector_timeout (c : N) (w : world) : world :=
  match aget N.eqb c (collectors w) with
  | Some co =>
      send_sd (co_data co) (co_dest co)
        (set_collectors (aset N.eqb c (mkColl (co_dest co) (co_data co) true) (collectors w))
                        (ghost (GFlush (co_dest co) (co_data co)) w))
  | None => w
  end.

(* ------------------------------------------------------------------ subscriber *)
Definition send_subscribe (ttl : N) (remote : addr) (gs : list eventgroup) (w : world) : world :=
  send_sd (map (fun g => create_subscribe_entry g ttl 0) gs) (Some remote) w.

Fixpoint group_add (ep : addr) (g : eventgroup) (acc : list (addr * list eventgroup)) :=
  match acc with
  | [] => [(ep, [g])]
  | (ep', gs) :: r => if ep =? ep' then (ep', gs ++ [g]) :: r else (ep', gs) :: group_add ep g r
  end.
Definition group_entries (l : list (eventgroup * addr)) : list (addr * list eventgroup) :=
  fold_left (fun acc p => group_add (snd p) (fst p) acc) l [].

(* GHOST: the ids of g are already requested from ep (C14 quantifies over histories without such duplicates) *)
Definition eg_ids_eq (a b : eventgroup) : bool :=
  (g_sid a =? g_sid b) && (g_iid a =? g_iid b) && (g_maj a =? g_maj b) && (g_id a =? g_id b).
Definition requested (g : eventgroup) (ep : addr) (l : list (eventgroup * addr)) : bool :=
  existsb (fun p => eg_ids_eq (fst p) g && (snd p =? ep)) l.
Definition note_dup (g : eventgroup) (ep : addr) (w : world) : world :=
  if requested g ep (sub_entries w) then ghost (GDupSub ep) w else w.

Definition subscribe_core (g : eventgroup) (ep : addr) (w : world) : world :=
  let w1 := set_sub_entries (sub_entries w ++ [(g, ep)]) w in
  if sub_alive w1 then call_soon (HSendStartSub ep [g]) w1 else w1.
Definition subscribe_eventgroup (g : eventgroup) (ep : addr) (w : world) : world :=
  subscribe_core g ep (note_dup g ep w).

Fixpoint remove_first {X} (eqb : X -> X -> bool) (x : X) (l : list X) : option (list X) :=
  match l with
  | [] => None
  | y :: r => if eqb x y then Some r
              else match remove_first eqb x r with Some r' => Some (y :: r') | None => None end
  end.
Definition sub_entry_eqb (a b : eventgroup * addr) : bool :=
  eventgroup_eqb (fst a) (fst b) && (snd a =? snd b).

Definition stop_subscribe_eventgroup (g : eventgroup) (ep : addr) (send : bool) (w : world) : world :=
  match remove_first sub_entry_eqb (g, ep) (sub_entries w) with
  | None => w
  | Some l => let w1 := set_sub_entries l w in
              if send then call_soon (HSendStopSub ep [g]) w1 else w1
  end.

Definition subscriber_start (w : world) : world :=
  if sub_alive w then w else
  let '(t, w1) := new_task TSub (set_sub_alive true w) in set_sub_task (Some t) w1.

Definition subscriber_stop (send_stop : bool) (w : world) : world :=
  if negb (sub_alive w) then w else
  let w1 := set_sub_alive false w in
  let w2 := match sub_task w1 with
            | Some t => set_sub_task None (cancel_task t w1)
            | None => w1
            end in
  if send_stop then
    fold_left (fun acc p => call_soon (HSendStopSub (fst p) (snd p)) acc) (group_entries (sub_entries w2)) w2
  else w2.

(* one pass of the _subscribe loop body, then sleep or finish *)
Definition subscribe_round (t : N) (w : world) : world :=
  let w1 := fold_left (fun acc p => send_subscribe (t_subscribe_ttl (cfg acc)) (fst p) (snd p) acc)
                      (group_entries (sub_entries w)) w in
  match t_refresh (cfg w1) with
  | None => finish_task t w1
  | Some r => task_sleep t TSub r 1 0 w1
  end.

(* ------------------------------------------------------------------ listeners and notifications *)
Definition listener_offered (l : listener) (s : service) (a : addr) (w : world) : world :=
  match l with
  | LRec id => emit (EOffered id s a) w
  | LAuto g => match for_service g s with
               | Some g' => subscribe_eventgroup g' a w
               | None => w
               end
  end.
Definition listener_stopped (l : listener) (s : service) (a : addr) (w : world) : world :=
  match l with
  | LRec id => emit (EStopped id s a) w
  | LAuto g => match for_service g s with
               | Some g' => stop_subscribe_eventgroup g' a true w
               | None => w
               end
  end.

Definition notify_service (f : listener -> service -> addr -> world -> world) (s : service) (a : addr)
  (w : world) : world :=
  let w1 := fold_left (fun acc p =>
              if matches_service (fst p) s then fold_left (fun acc2 l => f l s a acc2) (snd p) acc else acc)
              (watched w) w in
  fold_left (fun acc l => f l s a acc) (watch_all w1) w1.

(* the server listener of an instance: recording; rejects the eventgroup ids in in_reject *)
Definition client_subscribed (i : N) (sub : subscription) (a : addr) (w : world) : world * bool :=
  match aget N.eqb i (insts w) with
  | Some ins => let ok := negb (memN (sb_id sub) (in_reject ins)) in
                (emit (ESubscribed i sub a ok) w, ok)
  | None => (w, false)
  end.

(* the "expired"/"stopped" callback stored in a TimedStore entry *)
Definition store_callback (st : store_id) (k : key) (a : addr) (w : world) : world :=
  match st, k with
  | SFound, KService s => notify_service listener_stopped s a w
  | SSubs i, KSub sub => emit (EUnsubscribed i sub a) w
  | _, _ => w
  end.

(* ------------------------------------------------------------------ TimedStore *)
Definition get_store (st : store_id) (w : world) : store :=
  match st with
  | SFound => found w
  | SSubs i => match aget N.eqb i (insts w) with Some ins => in_subs ins | None => [] end
  end.
Definition put_store (st : store_id) (s : store) (w : world) : world :=
  match st with
  | SFound => set_found s w
  | SSubs i => match aget N.eqb i (insts w) with
               | Some ins => set_insts (aset N.eqb i (mkInst (in_service ins) (in_reject ins) (in_task ins)
                                                             (in_can_answer ins) s) (insts w)) w
               | None => w
               end
  end.

(* self.store[address] on a defaultdict: creates the (empty) inner dict *)
Definition touch (a : addr) (s : store) : store := if amem N.eqb a s then s else s ++ [(a, [])].
Definition inner (a : addr) (s : store) : list (key * option N) :=
  match aget N.eqb a s with Some d => d | None => [] end.

(* TimedStore.refresh; the bool is false when callback_new raised NakSubscription *)
Definition store_refresh (st : store_id) (ttl : N) (a : addr) (k : key) (w : world) : world * bool :=
  let s0 := touch a (get_store st w) in
  let d0 := inner a s0 in
  let '(w1, d1, ok) :=
    match aget key_eqb k d0 with
    | Some old => (cancel_opt old (put_store st (aset N.eqb a (adel key_eqb k d0) s0) w), adel key_eqb k d0, true)
    | None =>
        let w0 := put_store st s0 w in
        match st, k with
        | SFound, KService s => (notify_service listener_offered s a w0, d0, true)
        | SSubs i, KSub sub => let '(w', ok) := client_subscribed i sub a w0 in (w', d0, ok)
        | _, _ => (w0, d0, true)
        end
    end in
  if negb ok then (w1, false) else
  let w1g := ghost (GRefresh st a k ttl) w1 in
  let '(tid, w2) :=
    if ttl =? TTL_FOREVER then (None, w1g)
    else let '(t, w') := call_later (ttl * usec_per_sec) (HExpired st a k) w1g in (Some t, w') in
  (* the listener may have changed other parts of the world, but never this store *)
  let s2 := touch a (get_store st w2) in
  (put_store st (aset N.eqb a (adel key_eqb k (inner a s2) ++ [(k, tid)]) s2) w2, true).

Definition store_stop (st : store_id) (a : addr) (k : key) (w : world) : world :=
  let s0 := touch a (get_store st w) in
  let d0 := inner a s0 in
  match aget key_eqb k d0 with
  | None => put_store st s0 w
  | Some old =>
      store_callback st k a (cancel_opt old (put_store st (aset N.eqb a (adel key_eqb k d0) s0) w))
  end.

Definition store_stop_all_for_address (st : store_id) (a : addr) (w : world) : world :=
  let s0 := touch a (get_store st w) in
  let d0 := inner a s0 in
  let w1 := put_store st (aset N.eqb a [] s0) w in
  fold_left (fun acc p => store_callback st (fst p) a (cancel_opt (snd p) acc)) d0 w1.

Definition store_stop_all (st : store_id) (w : world) : world :=
  let w1 := fold_left (fun acc p => store_stop_all_for_address st (fst p) acc) (get_store st w) w in
  put_store st [] w1.

Definition store_expired (st : store_id) (a : addr) (k : key) (w : world) : world :=
  let s0 := touch a (get_store st w) in
  let d0 := inner a s0 in
  match aget key_eqb k d0 with
  | None => put_store st s0 w
  | Some _ => ghost (GExpire st a k) (store_callback st k a (put_store st (aset N.eqb a (adel key_eqb k d0) s0) w))
  end.

Definition store_keys (s : store) : list key := flat_map (fun p => map fst (snd p)) s.

(* ------------------------------------------------------------------ discovery *)
Definition is_watching (e : sdentry) (w : world) : bool :=
  match watch_all w with
  | _ :: _ => true
  | [] => existsb (fun p => match matches_offer (fst p) e with Ok true => true | _ => false end) (watched w)
  end.

Definition handle_offer (e : sdentry) (a : addr) (w : world) : world :=
  match from_offer_entry e with
  | Err _ => w
  | Ok s => if e_ttl e =? 0 then store_stop SFound a (KService s) w      (* a StopOffer is honoured even while nobody watches *)
            else if negb (is_watching e w) then w
            else fst (store_refresh SFound (e_ttl e) a (KService s) w)
  end.

(* watched_services[service].add(listener) on a defaultdict(set); sets kept sorted by insertion, no duplicates *)
(* a Python set of listeners: recording listeners hash to their id, so a small set iterates them in
   ascending id; auto-subscribe listeners (at most one per set in the scenarios) come last *)
Fixpoint insert_listener (l : listener) (ls : list listener) : list listener :=
  match ls with
  | [] => [l]
  | x :: r => match l, x with
              | LRec a, LRec b => if a <? b then l :: x :: r else x :: insert_listener l r
              | LRec _, LAuto _ => l :: x :: r
              | LAuto _, _ => x :: insert_listener l r
              end
  end.
Definition add_listener (l : listener) (ls : list listener) : list listener :=
  if existsb (listener_eqb l) ls then ls else insert_listener l ls.
Definition watched_get (f : service) (w : world) : list listener :=
  match aget service_eqb f (watched w) with Some ls => ls | None => [] end.

Definition found_iter (f : service -> bool) (g : service -> addr -> world -> world) (w : world) : world :=
  fold_left (fun acc p =>
     fold_left (fun acc2 q => match fst q with
                              | KService s => if f s then g s (fst p) acc2 else acc2
                              | _ => acc2
                              end) (snd p) acc) (found w) w.

(* ghost: a recording listener that is registered while it already has a registration (under any filter, or for all
   services) leaves the domain in which its notifications alternate (finding F13); nothing reads this *)
Definition occ (l : listener) (ls : list listener) : nat := length (filter (listener_eqb l) ls).
Definition regs_of (l : listener) (w : world) : nat :=
  list_sum (map (fun p => occ l (snd p)) (watched w)) + occ l (watch_all w).
Definition note_multi (l : listener) (w : world) : world :=
  match l with
  | LRec id => if Nat.eqb (regs_of l w) 0 then w else ghost (GMulti id) w
  | LAuto _ => w
  end.

Definition watch_service (f : service) (l : listener) (w0 : world) : world :=
  let w := note_multi l w0 in
  let w1 := set_watched (aset service_eqb f (add_listener l (watched_get f w)) (watched w)) w in
  found_iter (fun s => matches_service f s) (listener_offered l) w1.

Definition stop_watch_service (f : service) (l : listener) (w : world) : world :=
  let ls := watched_get f w in
  match remove_first listener_eqb l ls with
  | None => emit (ERaised (err_code EKey)) (set_watched (aset service_eqb f ls (watched w)) w)
  | Some ls' =>
      let w1 := set_watched (aset service_eqb f ls' (watched w)) w in
      found_iter (fun s => matches_service f s) (listener_stopped l) w1
  end.

Definition watch_all_services (l : listener) (w0 : world) : world :=
  let w := note_multi l w0 in
  let w1 := set_watch_all (add_listener l (watch_all w)) w in
  found_iter (fun _ => true) (listener_offered l) w1.

Definition stop_watch_all_services (l : listener) (w : world) : world :=
  match remove_first listener_eqb l (watch_all w) with
  | None => emit (ERaised (err_code EKey)) w
  | Some ls' => found_iter (fun _ => true) (listener_stopped l) (set_watch_all ls' w)
  end.

Definition service_found (f : service) (w : world) : bool :=
  existsb (fun k => match k with KService s => matches_service f s | _ => false end) (store_keys (found w)).

Definition find_entries (w : world) : list sdentry :=
  flat_map (fun p => if service_found (fst p) w then [] else [create_find_entry (fst p) (t_find_ttl (cfg w))])
           (watched w).

Definition discovery_start (w : world) : world :=
  let running := match disc_task w with
                 | Some t => match get_task t w with Some tk => negb (tk_done tk) | None => false end
                 | None => false
                 end in
  if running then w else
  let '(t, w1) := new_task TFind w in set_disc_task (Some t) w1.

Definition discovery_stop (w : world) : world :=
  match disc_task w with
  | Some t => set_disc_task None (cancel_task t w)
  | None => w
  end.

(* ------------------------------------------------------------------ announcer / instances *)
Definition get_inst (i : N) (w : world) : option inst := aget N.eqb i (insts w).
Definition put_inst (i : N) (ins : inst) (w : world) : world := set_insts (aset N.eqb i ins (insts w)) w.

Definition inst_send_offer (i : N) (remote : dest) (stop : bool) (w : world) : world :=
  match get_inst i w with
  | Some ins => queue_send (create_offer_entry (in_service ins) (if stop then 0 else t_announce_ttl (cfg w))) remote w
  | None => w
  end.

(* returns false when RuntimeError("task already started") is raised *)
Definition inst_start (i : N) (w : world) : world * bool :=
  match get_inst i w with
  | None => (w, true)
  | Some ins =>
      match in_task ins with
      | Some _ => (emit (ERaised (err_code ERuntime)) w, false)
      | None =>
          let '(t, w1) := new_task (TOffer i) w in
          (put_inst i (mkInst (in_service ins) (in_reject ins) (Some t) false (in_subs ins)) w1, true)
      end
  end.

Definition inst_stop (i : N) (w : world) : world * bool :=
  match get_inst i w with
  | None => (w, true)
  | Some ins =>
      match in_task ins with
      | None => (emit (ERaised (err_code ERuntime)) w, false)
      | Some t =>
          let w1 := put_inst i (mkInst (in_service ins) (in_reject ins) None false (in_subs ins)) (cancel_task t w) in
          let w2 := if t_cyclic (cfg w1) =? 0 then inst_send_offer i None true w1 else w1 in
          (store_stop_all (SSubs i) w2, true)
      end
  end.

(* for instance in announcing_services: f(instance); an exception aborts the loop *)
Fixpoint for_insts (f : N -> world -> world * bool) (l : list N) (w : world) : world * bool :=
  match l with
  | [] => (w, true)
  | i :: r => let '(w1, ok) := f i w in if ok then for_insts f r w1 else (w1, false)
  end.

Definition announcer_start (w : world) : world :=
  let '(w1, ok) := for_insts inst_start (announcing w) w in
  if ok then set_ann_started true w1 else w1.

Definition announcer_stop (w : world) : world :=
  if negb (ann_started w) then w else
  let '(w1, ok) := for_insts inst_stop (announcing w) w in
  if ok then set_ann_started false w1 else w1.

Definition announce_service (i : N) (w : world) : world :=
  let '(w1, ok) := if ann_started w then inst_start i w else (w, true) in
  if ok then set_announcing (announcing w1 ++ [i]) w1 else w1.

Definition stop_announce_service (i : N) (send_stop : bool) (w : world) : world :=
  match remove_first N.eqb i (announcing w) with
  | None => emit (ERaised (err_code EValue)) w
  | Some l => let w1 := set_announcing l w in
              if send_stop && ann_started w1 then fst (inst_stop i w1) else w1
  end.

Definition from_subscribe_entry (e : sdentry) : subscription :=
  let opts := e_opts1 e ++ e_opts2 e in
  mkSub (e_sid e) (e_iid e) (e_maj e) (N.land (e_val e) 65535) (N.land (N.shiftr (e_val e) 16) 15) (e_ttl e)
        (filter is_endpoint_opt opts) (filter (fun o => negb (is_endpoint_opt o)) opts).

Definition to_ack_entry (s : subscription) (ttl : N) : sdentry :=
  mkEntry ET_SubscribeAck (sb_sid s) (sb_iid s) (sb_maj s) ttl
          (N.lor (N.shiftl (sb_counter s) 16) (sb_id s)) [] [] None.

Definition send_subscribe_nack (s : subscription) (a : addr) (w : world) : world :=
  queue_send (to_ack_entry s 0) (Some a) w.

(* ServiceInstance.handle_subscribe: (world, matched?) *)
Definition inst_handle_subscribe (e : sdentry) (a : addr) (i : N) (w : world) : world * bool :=
  match get_inst i w with
  | None => (w, false)
  | Some ins =>
      match in_task ins with
      | None => (w, false)
      | Some _ =>
          match matches_subscribe (in_service ins) e with
          | Ok true =>
              let sub := from_subscribe_entry e in
              if e_ttl e =? 0 then (store_stop (SSubs i) a (KSub sub) w, true)
              else let '(w1, ok) := store_refresh (SSubs i) (sb_ttl sub) a (KSub sub) w in
                   if ok then (queue_send (to_ack_entry sub (sb_ttl sub)) (Some a) w1, true)
                   else (send_subscribe_nack sub a w1, true)
          | _ => (w, false)
          end
      end
  end.

Definition announcer_handle_subscribe (e : sdentry) (a : addr) (w : world) : world :=
  let '(w1, any) := fold_left (fun acc i => let '(w', m) := inst_handle_subscribe e a i (fst acc) in
                                             (w', snd acc || m)) (announcing w) (w, false) in
  if any then w1 else send_subscribe_nack (from_subscribe_entry e) a w1.

Definition inst_matches_find (e : sdentry) (i : N) (w : world) : bool :=
  match get_inst i w with
  | Some ins => in_can_answer ins && match matches_find (in_service ins) e with Ok true => true | _ => false end
  | None => false
  end.

Definition announcer_handle_findservice (e : sdentry) (a : addr) (mc : bool) (w : world) : world :=
  let matching := filter (fun i => inst_matches_find e i w) (announcing w) in
  match matching with
  | [] => w
  | _ =>
      if mc then
        let '(d, w1) := draw (t_rr_min (cfg w)) (t_rr_max (cfg w)) w in
        fold_left (fun acc i => snd (call_later d (HAnswerFind i a) acc)) matching w1
      else fold_left (fun acc i => call_soon (HAnswerFind i a) acc) matching w
  end.

Definition answer_find (i : N) (a : addr) (w : world) : world :=
  match get_inst i w with
  | Some ins => if in_can_answer ins then inst_send_offer i (Some a) false w else w
  | None => w
  end.

Definition announcer_reboot_detected (a : addr) (w : world) : world :=
  fold_left (fun acc i => store_stop_all_for_address (SSubs i) a acc) (announcing w) w.

(* ------------------------------------------------------------------ coroutines *)
Definition pow2 (i : N) : N := N.shiftl 1 i.

Definition set_can_answer (i : N) (b : bool) (w : world) : world :=
  match get_inst i w with
  | Some ins => put_inst i (mkInst (in_service ins) (in_reject ins) (in_task ins) b (in_subs ins)) w
  | None => w
  end.

(* _offer_task after an offer was sent with loop index i: next repetition, cyclic phase, or return *)
Definition offer_next (t i inst : N) (w : world) : world :=
  if i <? t_rep_max (cfg w) then task_sleep t (TOffer inst) (pow2 i * t_rep_base (cfg w)) 2 i w
  else if t_cyclic (cfg w) =? 0 then finish_task t w     (* return; finally: nothing (not cyclic) *)
  else task_sleep t (TOffer inst) (t_cyclic (cfg w)) 3 0 w.

Definition find_next (t i : N) (w : world) : world :=
  if i <? t_rep_max (cfg w) then task_sleep t TFind (pow2 i * t_rep_base (cfg w)) 2 i w
  else finish_task t w.

Definition task_step (t : N) (w : world) : world :=
  match get_task t w with
  | None => w
  | Some tk =>
      if tk_done tk then w else
      let c := tk_must_cancel tk in
      match tk_kind tk, tk_pc tk with
      (* ---- ServiceSubscriber._subscribe ---- *)
      | TSub, 0 => if c then finish_task t w else subscribe_round t w
      | TSub, _ => if c then finish_task t w else subscribe_round t w
      (* ---- ServiceDiscover.send_find_services ---- *)
      | TFind, 0 =>
          if c then finish_task t w else
          match watched w with
          | [] => finish_task t w
          | _ => let '(d, w1) := draw (t_init_min (cfg w)) (t_init_max (cfg w)) w in task_sleep t TFind d 1 0 w1
          end
      | TFind, 1 =>
          if c then finish_task t w else
          match find_entries w with
          | [] => finish_task t w
          | es => find_next t 0 (send_sd es None w)
          end
      | TFind, _ =>
          if c then finish_task t w else
          match find_entries w with
          | [] => finish_task t w
          | es => find_next t (tk_i tk + 1) (send_sd es None w)
          end
      (* ---- ServiceInstance._offer_task ---- *)
      | TOffer inst, 0 =>
          if c then finish_task t w else
          let '(d, w1) := draw (t_init_min (cfg w)) (t_init_max (cfg w)) w in task_sleep t (TOffer inst) d 1 0 w1
      | TOffer inst, 1 =>
          if c then finish_task t w (* cancelled before the try block: nothing is sent *) else
          offer_next t 0 inst (set_can_answer inst true (inst_send_offer inst None false w))
      | TOffer inst, 2 =>
          if c then
            let w1 := set_can_answer inst false w in
            finish_task t (if t_cyclic (cfg w1) =? 0 then w1 else inst_send_offer inst None true w1)
          else offer_next t (tk_i tk + 1) inst (inst_send_offer inst None false w)
      | TOffer inst, _ =>
          if c then
            let w1 := set_can_answer inst false w in
            finish_task t (if t_cyclic (cfg w1) =? 0 then w1 else inst_send_offer inst None true w1)
          else task_sleep t (TOffer inst) (t_cyclic (cfg w)) 3 0 (inst_send_offer inst None false w)
      end
  end.

Definition sleep_done (t : N) (w : world) : world :=
  match get_task t w with
  | Some tk => if tk_done tk then w else
               call_soon (HTaskWake t)
                 (put_task t (mkTask (tk_kind tk) (tk_pc tk) (tk_i tk) (tk_must_cancel tk) None false) w)
  | None => w
  end.

(* ------------------------------------------------------------------ the protocol object *)
Definition sd_message_received (h : sdheader) (a : addr) (mc : bool) (w : world) : world :=
  if negb (sd_unicast h) then w else
  fold_left (fun acc e =>
     if e_type e =? ET_OfferService then call_soon (HHandleOffer e a) acc
     else if e_type e =? ET_SubscribeAck then acc
     else if e_type e =? ET_FindService then announcer_handle_findservice e a mc acc
     else if e_type e =? ET_Subscribe then (if mc then acc else announcer_handle_subscribe e a acc)
     else acc) (sd_entries h) w.

Definition reboot_detected (a : addr) (w : world) : world :=
  call_soon (HRebootDisc a) (announcer_reboot_detected a w).

Definition is_sd_message (m : someip) : bool :=
  (m_sid m =? SD_SERVICE) && (m_mid m =? SD_METHOD) && (m_iv m =? SD_INTERFACE_VERSION)
  && (m_rc m =? RC_E_OK) && (m_mt m =? MT_NOTIFICATION).

Definition message_received (m : someip) (a : addr) (mc : bool) (w : world) : world :=
  if negb (is_sd_message m) then w else
  match parse_sd (m_payload m) with
  | Err _ => w
  | Ok (h, _) =>
      let '(rb, s') := check_received (sess w) a mc (sd_reboot h) (m_sess m) in
      let w1 := set_sess s' w in
      let w2 := if rb then reboot_detected a w1 else w1 in
      match resolve_sd h with
      | Ok hr => sd_message_received hr a mc w2
      | Err _ => w2
      end
  end.

Definition datagram_received (data : bytes) (a : addr) (mc : bool) (w : world) : world :=
  fold_left (fun acc m => message_received m a mc acc) (fst (datagram_split data)) w.

Definition proto_start (w : world) : world := discovery_start (announcer_start (subscriber_start w)).
Definition proto_stop (w : world) : world := subscriber_stop true (announcer_stop (discovery_stop w)).
Definition connection_lost (w : world) : world :=
  call_soon HConnLostAnn (call_soon HConnLostDisc (call_soon HConnLostSub w)).

Definition exec_api (c : api) (w : world) : world :=
  match c with
  | ApiStart => proto_start w
  | ApiStop => proto_stop w
  | ApiConnLost => connection_lost w
  | ApiWatch f l => watch_service f l w
  | ApiUnwatch f l => stop_watch_service f l w
  | ApiWatchAll l => watch_all_services l w
  | ApiUnwatchAll l => stop_watch_all_services l w
  | ApiFindSub g => watch_service (as_service g) (LAuto g) w
  | ApiStopFindSub g => stop_watch_service (as_service g) (LAuto g) w
  | ApiSubscribe g ep => subscribe_eventgroup g ep w
  | ApiStopSubscribe g ep send => stop_subscribe_eventgroup g ep send w
  | ApiSubStart => subscriber_start w
  | ApiSubStop send => subscriber_stop send w
  | ApiDiscStart => discovery_start w
  | ApiDiscStop => discovery_stop w
  | ApiAnnStart => announcer_start w
  | ApiAnnStop => announcer_stop w
  | ApiAnnounce i => announce_service i w
  | ApiStopAnnounce i s => stop_announce_service i s w
  | ApiQueueSend e d => queue_send e d w
  | ApiSendSd es d => send_sd es d w
  | ApiSetReject i egs =>
      match get_inst i w with
      | Some ins => put_inst i (mkInst (in_service ins) egs (in_task ins) (in_can_answer ins) (in_subs ins)) w
      | None => w
      end
  | ApiSoon c' => call_soon (HApi c') w
  end.

(* run one callback to completion *)
Definition exec (h : handle) (w : world) : world :=
  match h with
  | HDatagram a mc data => datagram_received data a mc w
  | HApi c => exec_api c w
  | HConnLostSub => subscriber_stop false w
  | HConnLostDisc => store_stop_all SFound w
  | HConnLostAnn => announcer_stop w
  | HRebootDisc a => store_stop_all_for_address SFound a w
  | HHandleOffer e a => handle_offer e a w
  | HSendStartSub ep gs => send_subscribe (t_subscribe_ttl (cfg w)) ep gs w
  | HSendStopSub ep gs => send_subscribe 0 ep gs w
  | HExpired st a k => store_expired st a k w
  | HCollector c => collector_timeout c w
  | HAnswerFind i a => answer_find i a w
  | HTaskWake t => task_step t w
  | HSleepDone t => sleep_done t w
  end.

(* ------------------------------------------------------------------ the loop *)
Fixpoint insert_by_when (x : N * N * handle) (l : list (N * N * handle)) : list (N * N * handle) :=
  match l with
  | [] => [x]
  | y :: r => if fst (fst x) <=? fst (fst y) then x :: y :: r else y :: insert_by_when x r
  end.
(* stable sort by deadline of a list in creation order: equal deadlines keep creation (tid) order *)
Definition sort_by_when (l : list (N * N * handle)) : list (N * N * handle) :=
  fold_right insert_by_when [] l.

Definition is_cancelled (tid : N) (w : world) : bool := memN tid (cancelled w).

(* run exactly n handles from the head of ready *)
Fixpoint run_ready (n : nat) (w : world) : world :=
  match n with
  | O => w
  | S n' =>
      match ready w with
      | [] => w
      | (otid, h) :: r =>
          let w1 := set_ready r w in
          let skip := match otid with Some tid => is_cancelled tid w1 | None => false end in
          run_ready n' (if skip then w1 else exec h w1)
      end
  end.

(* one iteration of BaseEventLoop._run_once at the current time: I/O first, then due timers, then
   exactly the handles that are in ready at that moment *)
Definition iteration (arrivals : list handle) (rev_ties : bool) (w : world) : world :=
  let w1 := fold_left (fun acc h => call_soon h acc) arrivals w in
  let due := filter (fun t => (fst (fst t) <=? now w1) && negb (is_cancelled (snd (fst t)) w1)) (timers w1) in
  let rest := filter (fun t => negb (fst (fst t) <=? now w1)) (timers w1) in
  let due' := sort_by_when (if rev_ties then rev due else due) in
  let w2 := set_timers rest (set_ready (ready w1 ++ map (fun t => (Some (snd (fst t)), snd t)) due') w1) in
  run_ready (length (ready w2)) w2.

Definition next_timer (w : world) : option N :=
  fold_left (fun acc t => if is_cancelled (snd (fst t)) w then acc else
                          match acc with None => Some (fst (fst t)) | Some m => Some (N.min m (fst (fst t))) end)
            (timers w) None.

Definition omin (a b : option N) : option N :=
  match a, b with
  | None, x | x, None => x
  | Some x, Some y => Some (N.min x y)
  end.

(* events: external handles with their arrival times, sorted by time: the arrived ones are a prefix *)
Fixpoint split_arrived (t : N) (events : list (N * handle)) : list (N * handle) * list (N * handle) :=
  match events with
  | [] => ([], [])
  | e :: r => if fst e <=? t then let '(a, l) := split_arrived t r in (e :: a, l) else ([], events)
  end.

Fixpoint run (fuel : nat) (events : list (N * handle)) (t_end : N) (rev_ties : bool) (w : world) : world * bool :=
  match fuel with
  | O => (w, false)
  | S f =>
      let '(arrived, later) := split_arrived (now w) events in
      let due_now := match next_timer w with Some t => t <=? now w | None => false end in
      match ready w, arrived, due_now with
      | [], [], false =>
          match omin (next_timer w) (match later with [] => None | e :: _ => Some (fst e) end) with
          | None => (w, true)
          | Some t => if t_end <? t then (w, true) else run f events t_end rev_ties (set_now (N.max t (now w)) w)
          end
      | _, _, _ => run f later t_end rev_ties (iteration (map snd arrived) rev_ties w)
      end
  end.
