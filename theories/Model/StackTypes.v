(* The SD stack on an event loop, as data: types.  See DESIGN.md 4.5-4.6.
   Time unit: microtick = 2^-20 s.  Addresses are opaque numbers. *)
From PS Require Import Lib.Base Generated.Consts Model.SdTypes Model.Config Model.Session.

Definition usec_per_sec : N := 1048576.

Record timings := mkTimings {
  t_init_min : N; t_init_max : N; t_rr_min : N; t_rr_max : N;
  t_rep_max : N; t_rep_base : N; t_cyclic : N;           (* t_cyclic = 0: no cyclic offers *)
  t_find_ttl : N; t_announce_ttl : N; t_subscribe_ttl : N;
  t_refresh : option N; t_collect : N }.

(* EventgroupSubscription: ttl and (non-endpoint) options are excluded from equality, endpoints are a set *)
Record subscription := mkSub {
  sb_sid : N; sb_iid : N; sb_maj : N; sb_id : N; sb_counter : N; sb_ttl : N;
  sb_endpoints : list sdopt; sb_options : list sdopt }.

Definition subset_opts (a b : list sdopt) : bool := forallb (fun x => existsb (sdopt_eqb x) b) a.
Definition sub_eqb (a b : subscription) : bool :=
  (sb_sid a =? sb_sid b) && (sb_iid a =? sb_iid b) && (sb_maj a =? sb_maj b) && (sb_id a =? sb_id b)
  && (sb_counter a =? sb_counter b)
  && subset_opts (sb_endpoints a) (sb_endpoints b) && subset_opts (sb_endpoints b) (sb_endpoints a).

Inductive key := KService (s : service) | KSub (s : subscription).
Definition key_eqb (a b : key) : bool :=
  match a, b with
  | KService x, KService y => service_eqb x y
  | KSub x, KSub y => sub_eqb x y
  | _, _ => false
  end.

Inductive store_id := SFound | SSubs (inst : N).
Definition store_id_eqb (a b : store_id) : bool :=
  match a, b with SFound, SFound => true | SSubs x, SSubs y => x =? y | _, _ => false end.

(* TimedStore.store: address -> key -> timer id (None: infinite TTL); both levels insertion ordered.
   The stored callback is determined by the store (found: notify stopped; subs: listener.client_unsubscribed). *)
Definition store := list (addr * list (key * option N)).

(* a client listener: a recording one (id) or AutoSubscribeServiceListener(eventgroup) *)
Inductive listener := LRec (id : N) | LAuto (g : eventgroup).
Definition listener_eqb (a b : listener) : bool :=
  match a, b with
  | LRec x, LRec y => x =? y
  | LAuto x, LAuto y => eventgroup_eqb x y
  | _, _ => false
  end.

Inductive api :=
| ApiStart | ApiStop | ApiConnLost
| ApiWatch (f : service) (l : listener) | ApiUnwatch (f : service) (l : listener)
| ApiWatchAll (l : listener) | ApiUnwatchAll (l : listener)
| ApiFindSub (g : eventgroup) | ApiStopFindSub (g : eventgroup)
| ApiSubscribe (g : eventgroup) (ep : addr) | ApiStopSubscribe (g : eventgroup) (ep : addr) (send : bool)
| ApiSubStart | ApiSubStop (send : bool)
| ApiDiscStart | ApiDiscStop
| ApiAnnStart | ApiAnnStop
| ApiAnnounce (i : N) | ApiStopAnnounce (i : N) (send_stop : bool)
| ApiQueueSend (e : sdentry) (d : dest) | ApiSendSd (es : list sdentry) (d : dest)
| ApiSetReject (i : N) (egs : list N)      (* the server listener of instance i changes its mind: from now on it rejects these eventgroup ids *)
| ApiSoon (c : api).                       (* application code that runs one loop iteration later: loop.call_soon(lambda: c) *)
(* the call an application makes in the end *)
Fixpoint api_strip (c : api) : api := match c with ApiSoon c' => api_strip c' | _ => c end.

Inductive handle :=
| HDatagram (from : addr) (mc : bool) (data : bytes)
| HApi (c : api)
| HConnLostSub | HConnLostDisc | HConnLostAnn
| HRebootDisc (a : addr)
| HHandleOffer (e : sdentry) (a : addr)
| HSendStartSub (ep : addr) (gs : list eventgroup)
| HSendStopSub (ep : addr) (gs : list eventgroup)
| HExpired (st : store_id) (a : addr) (k : key)
| HCollector (c : N)
| HAnswerFind (i : N) (a : addr)
| HTaskWake (t : N)
| HSleepDone (t : N).

Inductive event :=
| ESent (d : dest) (data : bytes)
| EOffered (lid : N) (s : service) (a : addr)
| EStopped (lid : N) (s : service) (a : addr)
| ESubscribed (inst : N) (s : subscription) (a : addr) (accepted : bool)
| EUnsubscribed (inst : N) (s : subscription) (a : addr)
| ERaised (code : N).

Inductive tkind := TSub | TFind | TOffer (inst : N).
(* pc: 0 not started; 1 in the first sleep; 2 in repetition sleep t_i (find/offer); 3 cyclic sleep (offer) *)
Record task := mkTask {
  tk_kind : tkind; tk_pc : N; tk_i : N; tk_must_cancel : bool; tk_sleep : option N; tk_done : bool }.

(* a ServiceInstance; in_reject: eventgroup ids its server listener rejects (NakSubscription) *)
Record inst := mkInst {
  in_service : service; in_reject : list N; in_task : option N; in_can_answer : bool; in_subs : store }.

Record collector := mkColl { co_dest : dest; co_data : list sdentry; co_done : bool }.

(* GHOST history, written by queue_send / collector_timeout / send_sd only and read by nothing: what was queued, what a
   collector handed over for transmission, and which (flag, session id) each SD transmission was given.  It is not
   part of the observable result (s_final, traces) and exists so that conservation and session-id theorems can be
   stated over whole runs of the stack. *)
Inductive gev :=
| GQueue (e : sdentry) (d : dest)
| GFlush (d : dest) (es : list sdentry)
| GSend (es : list sdentry) (d : dest) (flag : bool) (sid : N)
| GRefresh (st : store_id) (a : addr) (k : key) (ttl : N)      (* a TimedStore entry is (re)stored with this TTL *)
| GExpire (st : store_id) (a : addr) (k : key)                  (* a TimedStore entry is removed by its expiry timer *)
| GMulti (l : N)                                                (* recording listener l is registered while it already has a registration *)
| GDupSub (ep : addr).                                          (* subscribe_eventgroup for ids that are already requested from server ep *)

Record world := mkWorld {
  now : N;
  ready : list (option N * handle);
  timers : list (N * N * handle);
  cancelled : list N;
  next_id : N;
  cfg : timings;
  sess : Session.sess;
  sub_alive : bool;
  sub_task : option N;
  sub_entries : list (eventgroup * addr);
  watched : list (service * list listener);
  watch_all : list listener;
  found : store;
  disc_task : option N;
  ann_started : bool;
  announcing : list N;
  insts : list (N * inst);
  queues : list (dest * N);
  collectors : list (N * collector);
  tasks : list (N * task);
  draws : list N;
  out : list (N * event);
  glog : list (N * gev)
}.
Definition set_now (v : N) (w : world) : world := mkWorld (v) (ready w) (timers w) (cancelled w) (next_id w) (cfg w) (sess w) (sub_alive w) (sub_task w) (sub_entries w) (watched w) (watch_all w) (found w) (disc_task w) (ann_started w) (announcing w) (insts w) (queues w) (collectors w) (tasks w) (draws w) (out w) (glog w).
Definition set_ready (v : list (option N * handle)) (w : world) : world := mkWorld (now w) (v) (timers w) (cancelled w) (next_id w) (cfg w) (sess w) (sub_alive w) (sub_task w) (sub_entries w) (watched w) (watch_all w) (found w) (disc_task w) (ann_started w) (announcing w) (insts w) (queues w) (collectors w) (tasks w) (draws w) (out w) (glog w).
Definition set_timers (v : list (N * N * handle)) (w : world) : world := mkWorld (now w) (ready w) (v) (cancelled w) (next_id w) (cfg w) (sess w) (sub_alive w) (sub_task w) (sub_entries w) (watched w) (watch_all w) (found w) (disc_task w) (ann_started w) (announcing w) (insts w) (queues w) (collectors w) (tasks w) (draws w) (out w) (glog w).
Definition set_cancelled (v : list N) (w : world) : world := mkWorld (now w) (ready w) (timers w) (v) (next_id w) (cfg w) (sess w) (sub_alive w) (sub_task w) (sub_entries w) (watched w) (watch_all w) (found w) (disc_task w) (ann_started w) (announcing w) (insts w) (queues w) (collectors w) (tasks w) (draws w) (out w) (glog w).
Definition set_next_id (v : N) (w : world) : world := mkWorld (now w) (ready w) (timers w) (cancelled w) (v) (cfg w) (sess w) (sub_alive w) (sub_task w) (sub_entries w) (watched w) (watch_all w) (found w) (disc_task w) (ann_started w) (announcing w) (insts w) (queues w) (collectors w) (tasks w) (draws w) (out w) (glog w).
Definition set_cfg (v : timings) (w : world) : world := mkWorld (now w) (ready w) (timers w) (cancelled w) (next_id w) (v) (sess w) (sub_alive w) (sub_task w) (sub_entries w) (watched w) (watch_all w) (found w) (disc_task w) (ann_started w) (announcing w) (insts w) (queues w) (collectors w) (tasks w) (draws w) (out w) (glog w).
Definition set_sess (v : Session.sess) (w : world) : world := mkWorld (now w) (ready w) (timers w) (cancelled w) (next_id w) (cfg w) (v) (sub_alive w) (sub_task w) (sub_entries w) (watched w) (watch_all w) (found w) (disc_task w) (ann_started w) (announcing w) (insts w) (queues w) (collectors w) (tasks w) (draws w) (out w) (glog w).
Definition set_sub_alive (v : bool) (w : world) : world := mkWorld (now w) (ready w) (timers w) (cancelled w) (next_id w) (cfg w) (sess w) (v) (sub_task w) (sub_entries w) (watched w) (watch_all w) (found w) (disc_task w) (ann_started w) (announcing w) (insts w) (queues w) (collectors w) (tasks w) (draws w) (out w) (glog w).
Definition set_sub_task (v : option N) (w : world) : world := mkWorld (now w) (ready w) (timers w) (cancelled w) (next_id w) (cfg w) (sess w) (sub_alive w) (v) (sub_entries w) (watched w) (watch_all w) (found w) (disc_task w) (ann_started w) (announcing w) (insts w) (queues w) (collectors w) (tasks w) (draws w) (out w) (glog w).
Definition set_sub_entries (v : list (eventgroup * addr)) (w : world) : world := mkWorld (now w) (ready w) (timers w) (cancelled w) (next_id w) (cfg w) (sess w) (sub_alive w) (sub_task w) (v) (watched w) (watch_all w) (found w) (disc_task w) (ann_started w) (announcing w) (insts w) (queues w) (collectors w) (tasks w) (draws w) (out w) (glog w).
Definition set_watched (v : list (service * list listener)) (w : world) : world := mkWorld (now w) (ready w) (timers w) (cancelled w) (next_id w) (cfg w) (sess w) (sub_alive w) (sub_task w) (sub_entries w) (v) (watch_all w) (found w) (disc_task w) (ann_started w) (announcing w) (insts w) (queues w) (collectors w) (tasks w) (draws w) (out w) (glog w).
Definition set_watch_all (v : list listener) (w : world) : world := mkWorld (now w) (ready w) (timers w) (cancelled w) (next_id w) (cfg w) (sess w) (sub_alive w) (sub_task w) (sub_entries w) (watched w) (v) (found w) (disc_task w) (ann_started w) (announcing w) (insts w) (queues w) (collectors w) (tasks w) (draws w) (out w) (glog w).
Definition set_found (v : store) (w : world) : world := mkWorld (now w) (ready w) (timers w) (cancelled w) (next_id w) (cfg w) (sess w) (sub_alive w) (sub_task w) (sub_entries w) (watched w) (watch_all w) (v) (disc_task w) (ann_started w) (announcing w) (insts w) (queues w) (collectors w) (tasks w) (draws w) (out w) (glog w).
Definition set_disc_task (v : option N) (w : world) : world := mkWorld (now w) (ready w) (timers w) (cancelled w) (next_id w) (cfg w) (sess w) (sub_alive w) (sub_task w) (sub_entries w) (watched w) (watch_all w) (found w) (v) (ann_started w) (announcing w) (insts w) (queues w) (collectors w) (tasks w) (draws w) (out w) (glog w).
Definition set_ann_started (v : bool) (w : world) : world := mkWorld (now w) (ready w) (timers w) (cancelled w) (next_id w) (cfg w) (sess w) (sub_alive w) (sub_task w) (sub_entries w) (watched w) (watch_all w) (found w) (disc_task w) (v) (announcing w) (insts w) (queues w) (collectors w) (tasks w) (draws w) (out w) (glog w).
Definition set_announcing (v : list N) (w : world) : world := mkWorld (now w) (ready w) (timers w) (cancelled w) (next_id w) (cfg w) (sess w) (sub_alive w) (sub_task w) (sub_entries w) (watched w) (watch_all w) (found w) (disc_task w) (ann_started w) (v) (insts w) (queues w) (collectors w) (tasks w) (draws w) (out w) (glog w).
Definition set_insts (v : list (N * inst)) (w : world) : world := mkWorld (now w) (ready w) (timers w) (cancelled w) (next_id w) (cfg w) (sess w) (sub_alive w) (sub_task w) (sub_entries w) (watched w) (watch_all w) (found w) (disc_task w) (ann_started w) (announcing w) (v) (queues w) (collectors w) (tasks w) (draws w) (out w) (glog w).
Definition set_queues (v : list (dest * N)) (w : world) : world := mkWorld (now w) (ready w) (timers w) (cancelled w) (next_id w) (cfg w) (sess w) (sub_alive w) (sub_task w) (sub_entries w) (watched w) (watch_all w) (found w) (disc_task w) (ann_started w) (announcing w) (insts w) (v) (collectors w) (tasks w) (draws w) (out w) (glog w).
Definition set_collectors (v : list (N * collector)) (w : world) : world := mkWorld (now w) (ready w) (timers w) (cancelled w) (next_id w) (cfg w) (sess w) (sub_alive w) (sub_task w) (sub_entries w) (watched w) (watch_all w) (found w) (disc_task w) (ann_started w) (announcing w) (insts w) (queues w) (v) (tasks w) (draws w) (out w) (glog w).
Definition set_tasks (v : list (N * task)) (w : world) : world := mkWorld (now w) (ready w) (timers w) (cancelled w) (next_id w) (cfg w) (sess w) (sub_alive w) (sub_task w) (sub_entries w) (watched w) (watch_all w) (found w) (disc_task w) (ann_started w) (announcing w) (insts w) (queues w) (collectors w) (v) (draws w) (out w) (glog w).
Definition set_draws (v : list N) (w : world) : world := mkWorld (now w) (ready w) (timers w) (cancelled w) (next_id w) (cfg w) (sess w) (sub_alive w) (sub_task w) (sub_entries w) (watched w) (watch_all w) (found w) (disc_task w) (ann_started w) (announcing w) (insts w) (queues w) (collectors w) (tasks w) (v) (out w) (glog w).
Definition set_out (v : list (N * event)) (w : world) : world := mkWorld (now w) (ready w) (timers w) (cancelled w) (next_id w) (cfg w) (sess w) (sub_alive w) (sub_task w) (sub_entries w) (watched w) (watch_all w) (found w) (disc_task w) (ann_started w) (announcing w) (insts w) (queues w) (collectors w) (tasks w) (draws w) (v) (glog w).
Definition set_glog (v : list (N * gev)) (w : world) : world := mkWorld (now w) (ready w) (timers w) (cancelled w) (next_id w) (cfg w) (sess w) (sub_alive w) (sub_task w) (sub_entries w) (watched w) (watch_all w) (found w) (disc_task w) (ann_started w) (announcing w) (insts w) (queues w) (collectors w) (tasks w) (draws w) (out w) (v).
