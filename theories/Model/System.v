(* Two SD stacks (Model/Stack.v worlds, each with its own event loop, as two processes would have) exchanging
   their datagrams over a simulated network: per-datagram latency / loss / duplication / reordering decided by an
   oracle stream, graceful stop and start, crash (the world is discarded, nothing is sent) and restart (a fresh
   world: fresh session storage, same address and configuration).  DESIGN.md 4.8.  The network latency is at least
   one microtick, so the two loops never interact within one instant: at every instant each world settles alone. *)
From PS Require Import Lib.Base Generated.Consts Model.SdTypes Model.Config Model.Session Model.StackTypes Model.Stack
  Model.StackIO.

(* run the world at its current time until nothing is runnable at that time *)
Definition due_now (w : world) : bool := match next_timer w with Some t => t <=? now w | None => false end.

Fixpoint settle (fuel : nat) (arrivals : list handle) (rev_ties : bool) (w : world) : world * bool :=
  match fuel with
  | O => (w, false)
  | S f =>
      match ready w, arrivals, due_now w with
      | [], [], false => (w, true)
      | _, _, _ => settle f [] rev_ties (iteration arrivals rev_ties w)
      end
  end.

Inductive ctl := CApi (c : api) | CCrash | CRestart.

Record node_cfg := mkNode { nd_addr : N; nd_cfg : timings; nd_insts : list (N * inst); nd_draws : list N; nd_init : list api }.

Record dgram := mkDg { dg_at : N; dg_to : N; dg_from : N; dg_mc : bool; dg_data : bytes }.

Record sys := mkSys {
  sy_now : N;
  sy_a : option world; sy_b : option world;
  sy_net : list dgram;                  (* in sending order; delivery order = (arrival time, sending order) *)
  sy_dec : list (list N);               (* network oracle: one decision per transmitted datagram, a list of latencies
                                           ([] = lost, two elements = duplicated); afterwards the default latency *)
  sy_tra : list (N * event);            (* cumulative traces (newest first) of the worlds that lived at each address *)
  sy_trb : list (N * event);
  sy_ok : bool }.

Definition fresh_world (t : N) (nd : node_cfg) : world :=
  mkWorld t [] [] [] 1 (nd_cfg nd) sess_init false None [] [] [] [] None false [] (nd_insts nd) [] [] []
          (nd_draws nd) [] [].

Record sys_scenario := mkSysSc {
  ss_a : node_cfg; ss_b : node_cfg;
  ss_events : list (N * (bool * ctl));   (* (time, (true = node B, what)) sorted by time *)
  ss_decisions : list (list N); ss_fault_end : N; ss_latency : N;
  ss_end : N; ss_rev : bool; ss_fuel : N }.

(* the transmissions a world added during one settle: out is newest first *)
Definition new_sends (before after : list (N * event)) : list (dest * bytes) :=
  rev (flat_map (fun p => match snd p with ESent d data => [(d, data)] | _ => [] end)
                (firstn (length after - length before) after)).

Definition enqueue (t lat fault_end : N) (from to_ : N) (sends : list (dest * bytes)) (other_addr : N) (s : sys) : sys :=
  fold_left (fun acc sd =>
     let '(d, data) := sd in
     let '(lats, rest) := if t <? fault_end then match sy_dec acc with [] => ([lat], []) | x :: r => (x, r) end
                          else ([lat], sy_dec acc) in
     let target := match d with None => Some (to_, true)
                               | Some a => if a =? other_addr then Some (to_, false) else None end in
     let dgs := match target with
                | Some (node, mc) => map (fun l => mkDg (t + N.max 1 l) node from mc data) lats
                | None => []
                end in
     mkSys (sy_now acc) (sy_a acc) (sy_b acc) (sy_net acc ++ dgs) rest (sy_tra acc) (sy_trb acc) (sy_ok acc))
    sends s.

(* stable insertion sort of the due datagrams by arrival time *)
Fixpoint ins_dg (x : dgram) (l : list dgram) : list dgram :=
  match l with
  | [] => [x]
  | y :: r => if dg_at x <? dg_at y then x :: y :: r else y :: ins_dg x r
  end.
Definition sort_dg (l : list dgram) : list dgram := fold_left (fun acc x => ins_dg x acc) l [].

Definition node_step (t : N) (is_b : bool) (nd : node_cfg) (fuel : nat) (rev_ties : bool)
  (ctls : list ctl) (arrived : list dgram) (w : option world) (tr : list (N * event))
  : option world * list (N * event) * list (dest * bytes) * bool :=
  (* control events first, in order: crash discards the world, restart creates a fresh one and runs its init calls *)
  let '(w1, tr1, apis) :=
    fold_left (fun acc c =>
      let '(w0, tr0, ap) := acc in
      match c with
      | CCrash => (None, match w0 with Some x => out x ++ tr0 | None => tr0 end, [])
      | CRestart => match w0 with
                    | Some _ => (w0, tr0, ap)
                    | None => (Some (fresh_world t nd), tr0, map HApi (nd_init nd))
                    end
      | CApi a => (w0, tr0, ap ++ [HApi a])
      end) ctls (w, tr, []) in
  match w1 with
  | None => (None, tr1, [], true)
  | Some x =>
      let x0 := set_now (N.max t (now x)) x in
      let hs := apis ++ map (fun d => HDatagram (dg_from d) (dg_mc d) (dg_data d)) arrived in
      match hs, ready x0, due_now x0 with
      | [], [], false => (Some x0, tr1, [], true)
      | _, _, _ =>
          let '(x1, ok) := settle fuel hs rev_ties x0 in
          (Some x1, tr1, new_sends (out x0) (out x1), ok)
      end
  end.

Definition opt_next_timer (w : option world) : option N := match w with Some x => next_timer x | None => None end.

Definition next_instant (sc : sys_scenario) (evs : list (N * (bool * ctl))) (s : sys) : option N :=
  omin (omin (opt_next_timer (sy_a s)) (opt_next_timer (sy_b s)))
       (omin (match evs with [] => None | e :: _ => Some (fst e) end)
             (fold_left (fun acc d => omin acc (Some (dg_at d))) (sy_net s) None)).

Fixpoint sys_run (fuel : nat) (sc : sys_scenario) (evs : list (N * (bool * ctl))) (s : sys) : sys * bool :=
  match fuel with
  | O => (s, false)
  | S f =>
      match next_instant sc evs s with
      | None => (s, true)
      | Some t0 =>
          let t := N.max t0 (sy_now s) in
          if ss_end sc <? t then (s, true) else
          let now_evs := filter (fun e => fst e <=? t) evs in
          let later := filter (fun e => negb (fst e <=? t)) evs in
          let due := sort_dg (filter (fun d => dg_at d <=? t) (sy_net s)) in
          let rest := filter (fun d => negb (dg_at d <=? t)) (sy_net s) in
          let ctl_of (b : bool) := map (fun e => snd (snd e)) (filter (fun e => Bool.eqb (fst (snd e)) b) now_evs) in
          let '(wa, tra, sa, oka) := node_step t false (ss_a sc) (N.to_nat (ss_fuel sc)) (ss_rev sc) (ctl_of false)
                                       (filter (fun d => dg_to d =? 0) due) (sy_a s) (sy_tra s) in
          let '(wb, trb, sb, okb) := node_step t true (ss_b sc) (N.to_nat (ss_fuel sc)) (ss_rev sc) (ctl_of true)
                                       (filter (fun d => dg_to d =? 1) due) (sy_b s) (sy_trb s) in
          let s1 := mkSys t wa wb rest (sy_dec s) tra trb (sy_ok s && oka && okb) in
          let s2 := enqueue t (ss_latency sc) (ss_fault_end sc) (nd_addr (ss_a sc)) 1 sa (nd_addr (ss_b sc)) s1 in
          let s3 := enqueue t (ss_latency sc) (ss_fault_end sc) (nd_addr (ss_b sc)) 0 sb (nd_addr (ss_a sc)) s2 in
          sys_run f sc later s3
      end
  end.

Definition sys_init (sc : sys_scenario) : sys := mkSys 0 None None [] (ss_decisions sc) [] [] true.

Definition full_trace (w : option world) (tr : list (N * event)) : trace :=
  rev (match w with Some x => out x ++ tr | None => tr end).

Definition sys_run_scenario (sc : sys_scenario) : sys * bool :=
  sys_run (N.to_nat (ss_fuel sc)) sc (ss_events sc) (sys_init sc).

(* ---- s-expressions ---- *)
Definition d_ctl (s : sexp) : option ctl :=
  match s with
  | L [A 0; c] => let? c' := d_api c in Some (CApi c')
  | L [A 1] => Some CCrash
  | L [A 2] => Some CRestart
  | _ => None
  end.
Definition d_node (s : sexp) : option node_cfg :=
  match s with
  | L [A a; c; ins; dr; init] =>
      let? c' := d_timings c in let? ins' := dlist d_inst ins in let? dr' := dlist dN dr in
      let? init' := dlist d_api init in Some (mkNode a c' ins' dr' init')
  | _ => None
  end.
Definition d_sys_scenario (s : sexp) : option sys_scenario :=
  match s with
  | L [na; nb; evs; decs; A fe; A lat; A t_end; rv; A fuel] =>
      let? na' := d_node na in let? nb' := d_node nb in
      let? evs' := dlist (fun x => match x with
                                   | L [A t; b; c] => let? b' := dbool b in let? c' := d_ctl c in Some (t, (b', c'))
                                   | _ => None end) evs in
      let? decs' := dlist (dlist dN) decs in let? rv' := dbool rv in
      Some (mkSysSc na' nb' evs' decs' fe lat t_end rv' fuel)
  | _ => None
  end.

Definition sys_run_op (arg : sexp) : option sexp :=
  let? sc := d_sys_scenario arg in
  let '(s, completed) := sys_run_scenario sc in
  Some (L [s_trace (full_trace (sy_a s) (sy_tra s)); s_trace (full_trace (sy_b s) (sy_trb s));
           sbool (completed && sy_ok s);
           sopt s_final (sy_a s); sopt s_final (sy_b s)]).
