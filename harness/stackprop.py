"""Generic driver for the properties decided on the SD stack model: run each scenario on the real
stack (virtual-time loop) and on the extracted model, compare the complete traces and final states,
and judge the IMPLEMENTATION's trace with the extracted Gallina checker of the property."""
import json

from . import sexp, sim
from .common import load_corpus


def trace_sexp(tr):
    return [[t, ev] for t, ev in tr]


def describe(sc):
    out = []
    for t, ev in sc["events"]:
        if ev[0] == 0:
            out.append([t, "datagram", ev[1], bool(ev[2]), bytes(ev[3]).hex()])
        else:
            out.append([t, "api", sexp.dumps(ev[1])])
    return dict(cfg=list(sc["cfg"]), insts=[[i, sexp.dumps(s), list(r)] for i, s, r in sc["insts"]], draws=sc["draws"], events=out, end=sc["end"], rev=sc["rev"], fuel=sc["fuel"])


def undescribe(d):
    events = []
    for e in d["events"]:
        if e[1] == "datagram":
            events.append((e[0], (0, e[2], e[3], bytes.fromhex(e[4]))))
        else:
            events.append((e[0], (1, sexp.loads(e[2]) if isinstance(e[2], str) else e[2])))
    return dict(cfg=tuple(d["cfg"]), insts=[(i[0], sexp.loads(i[1]) if isinstance(i[1], str) else i[1], i[2]) for i in d["insts"]], draws=d["draws"], events=events, end=d["end"], rev=d["rev"], fuel=d["fuel"])


def shrink(sc, fails):
    """Greedy: drop external events one at a time while the failure persists."""
    cur = sc
    changed = True
    budget = 60 if len(sc["events"]) <= 2000 else 0  # very long runs (session-id wraps) are reported as they are
    while changed and budget > 0:
        changed = False
        for i in range(len(cur["events"])):
            budget -= 1
            if budget <= 0:
                break
            cand = dict(cur, events=cur["events"][:i] + cur["events"][i + 1:])
            try:
                if fails(cand):
                    cur = cand
                    changed = True
                    break
            except Exception:  # noqa: BLE001
                continue
    return cur


def canon_ghost(g):
    """TimedStore events: endpoint sets of subscription keys sorted, as in the traces."""
    out = []
    for ev in g:
        ev = list(ev)
        if len(ev) >= 5 and ev[1] in (3, 4) and ev[4] and ev[4][0] == 1:
            k = list(ev[4])
            sub = list(k[1])
            sub[6] = sorted(sub[6], key=sexp.dumps)
            k[1] = sub
            ev[4] = k
        out.append(ev)
    return out


def run_scenarios(ctx, scenarios, check_op, code_names, known_codes=None, kind_of=lambda sc: "generated", what="SD stack", early=None):
    """early: how many scenarios with an event on the tick of some timer are run a second time with that event delivered a
    quarter tick EARLY (asyncio runs a timer up to one clock resolution before its deadline when something else wakes the
    loop then; harness/vloop.py early_at) - the early trace is judged by the property's checker."""
    known_codes = known_codes or {}
    impl = []
    coincide = []
    for sc in scenarios:
        impl.append(sim.run_impl(sc))
        coincide.append({t for t, ev in sc["events"] if t > 0} & getattr(sim.run_impl, "last_armed_ticks", set()))
    if early is None:
        early = 40 if ctx.tier == "quick" else 1500
    n_early = 0
    for sc, (tr, comp, fin), ticks in zip(scenarios, impl, coincide):
        if n_early >= early:
            break
        if not ticks or not comp or sc["end"] > 64 * (1 << 20):
            continue
        n_early += 1
        tr2, comp2, _ = sim.run_impl(sc, early_at=ticks)
        v2 = ctx.model.call(check_op, [sim.scenario_sexp(sc), trace_sexp(tr2)])
        codes2 = [c for c in (sexp.loads(v2) if v2.startswith("(") else [98]) if c not in known_codes]
        if sorted((e[0], sexp.dumps(e[1])) for e in sim.norm(tr2)) != sorted((e[0], sexp.dumps(e[1])) for e in sim.norm(tr)):
            ctx.dist["early-run-differs-from-exact-run"] += 1
        if codes2 or not comp2:
            ctx.violation(f"{what}: with an event delivered a fraction of the clock resolution before a timer deadline of its tick (the timer runs in that "
                          "iteration, loop.time() still below its deadline): " + ("; ".join(code_names.get(c, f"checker code {c}") for c in sorted(set(codes2)))
                                                                                   or "the loop did not become idle"),
                          dict(scenario=describe(sc), early_ticks=sorted(ticks), trace_early=sexp.dumps(sim.norm(tr2))[:8000], checker_codes=codes2))
    ctx.notes["early_iteration_scenarios"] = ctx.notes.get("early_iteration_scenarios", 0) + n_early
    model = sim.run_model(ctx, scenarios)
    verdicts = ctx.model.batch([(check_op, [sim.scenario_sexp(sc), trace_sexp(tr)]) for sc, (tr, _, _) in zip(scenarios, impl)])
    nev = 0
    for idx, (sc, (tr, comp, fin), (mtr, mcomp, mfin), v) in enumerate(zip(scenarios, impl, model, verdicts)):
        nev += len(tr)
        if not comp or not mcomp:
            ctx.dist["incomplete-scenario"] += 1
            ctx.dist["incomplete-" + ("both" if not comp and not mcomp else "implementation-only" if not comp else "model-only")] += 1
            if comp != mcomp:
                # one side ran out of its iteration budget while the other became idle: their behaviours differ
                ctx.mismatch(f"{what}: " + ("the implementation did not become idle within the iteration budget while the model completed"
                                            if mcomp else "the model ran out of fuel while the implementation completed"),
                             dict(scenario=describe(sc), implementation_trace_events=len(tr), model_trace_events=len(mtr)))
            continue
        a, b = sim.norm(tr), sim.norm(mtr)
        codes = sexp.loads(v) if v.startswith("(") else [98]
        bad = [c for c in codes if c not in known_codes]
        for c in codes:
            if c in known_codes:
                ctx.known_hit(known_codes[c])
        if bad:
            def fails(cand, op=check_op, bad0=bad[0]):
                t2, c2, _ = sim.run_impl(cand)
                vv = ctx.model.call(op, [sim.scenario_sexp(cand), trace_sexp(t2)])
                return bad0 in (sexp.loads(vv) if vv.startswith("(") else [98])
            small = shrink(sc, fails)
            t2, _, _ = sim.run_impl(small)
            ctx.violation(f"{what}: " + "; ".join(code_names.get(c, f"checker code {c}") for c in sorted(set(bad))),
                          dict(scenario=describe(small), implementation_trace=sexp.dumps(sim.norm(t2))[:20000], checker_codes=bad, original_events=len(sc["events"])))
        ga, gb = canon_ghost(sim.norm(fin[1])), canon_ghost(sim.norm(mfin[1]))
        fin, mfin = fin[0], mfin[0]
        ctx.notes["call_history_events_compared"] = ctx.notes.get("call_history_events_compared", 0) + len(ga)
        if ga != gb:
            k = next((i for i, (x, y) in enumerate(zip(ga, gb)) if x != y), min(len(ga), len(gb)))
            ctx.mismatch(f"{what}: the call history of the implementation (queue_send / collector hand-over / send_sd / TimedStore refresh and expiry) differs from the model's ghost history",
                         dict(scenario=describe(sc), first_difference_at=k,
                              implementation=(sexp.dumps(ga[k])[:1500] if k < len(ga) else "end of history"),
                              model=(sexp.dumps(gb[k])[:1500] if k < len(gb) else "end of history")))
        if a != b or sim.norm(fin) != sim.norm(mfin):
            k = next((i for i, (x, y) in enumerate(zip(a, b)) if x != y), min(len(a), len(b)))
            ctx.mismatch(f"{what}: trace of the implementation differs from the model",
                         dict(scenario=describe(sc), first_difference_at=k,
                              implementation=(sexp.dumps(a[k])[:1500] if k < len(a) else "end of trace"), model=(sexp.dumps(b[k])[:1500] if k < len(b) else "end of trace"),
                              final_implementation=sexp.dumps(sim.norm(fin))[:1500], final_model=sexp.dumps(sim.norm(mfin))[:1500]))
        kinds = sorted(set(e[0] for _, e in tr))
        ctx.case(json.dumps(describe(sc), sort_keys=True), nontrivial=len(tr) > 0, kind=kind_of(sc),
                 sample=dict(scenario=describe(sc), trace=sexp.dumps(sim.norm(tr))[:600]) if len(ctx.samples) < 2 and len(tr) > 2 else None)
    ctx.notes["trace_events_compared"] = ctx.notes.get("trace_events_compared", 0) + nev
    return impl, model


def corpus_scenarios(pid):
    return [undescribe(c["scenario"]) for c in load_corpus(pid) if "scenario" in c]


def replay(ctx, rp, check_op):
    sc = undescribe(rp["scenario"])
    tr, comp, fin = sim.run_impl(sc)
    (mtr, mcomp, mfin), = sim.run_model(ctx, [sc])
    print("implementation trace:", sexp.dumps(sim.norm(tr))[:6000])
    print("model trace:         ", sexp.dumps(sim.norm(mtr))[:6000])
    v = ctx.model.call(check_op, [sim.scenario_sexp(sc), trace_sexp(tr)])
    print("checker verdict on the implementation trace:", v)
    return 0 if v == "()" and sim.norm(tr) == sim.norm(mtr) else 1
