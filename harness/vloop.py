"""A deterministic virtual-time asyncio event loop (DESIGN.md 5.2).

* time() is a virtual clock in seconds; all harness delays are multiples of 2^-20 s (one microtick),
  so float arithmetic on them is exact and equals the model's N arithmetic.
* select(timeout) either delivers the synthetic I/O events whose arrival time has been reached
  (jumping the clock to the earliest arrival) or advances the clock by `timeout`.
* timers with equal deadlines fire in creation order (or reverse creation order: rev_ties).
"""
import asyncio
import heapq
import selectors

TICK = 2.0 ** -20


class FakeSelector(selectors.BaseSelector):
    def __init__(self, loop):
        self.loop = loop
        self.keys = {}

    def register(self, fileobj, events, data=None):
        key = selectors.SelectorKey(fileobj, fileobj if isinstance(fileobj, int) else fileobj.fileno(), events, data)
        self.keys[key.fd] = key
        return key

    def unregister(self, fileobj):
        fd = fileobj if isinstance(fileobj, int) else fileobj.fileno()
        return self.keys.pop(fd)

    def modify(self, fileobj, events, data=None):
        self.unregister(fileobj)
        return self.register(fileobj, events, data)

    def select(self, timeout=None):
        return self.loop._vselect(timeout)

    def get_map(self):
        return self.keys

    def close(self):
        self.keys.clear()


class VTimerHandle(asyncio.TimerHandle):
    __slots__ = ("_vseq",)

    def _key(self):
        return (self._when, self._vseq)

    def __lt__(self, other):
        return self._key() < other._key()

    def __le__(self, other):
        return self._key() <= other._key()

    def __gt__(self, other):
        return self._key() > other._key()

    def __ge__(self, other):
        return self._key() >= other._key()

    def __eq__(self, other):
        return self is other

    __hash__ = asyncio.TimerHandle.__hash__


class VLoop(asyncio.SelectorEventLoop):
    def __init__(self, rev_ties=False, early_at=()):
        # ticks whose synthetic I/O is delivered a quarter tick EARLY: the loop then runs the timers due at that tick in
        # the same iteration while time() is still below their deadline (asyncio runs a timer up to one clock resolution
        # early) - behaviour must not depend on it
        self.early_at = set(early_at)
        self.armed_ticks = set()      # every tick some timer was armed for (used to find coincidences worth an early run)
        self.vnow = 0.0
        self.pending_io = []  # heap of (time, seq, callback)
        self._io_seq = 0
        self._tseq = 0
        self.rev_ties = rev_ties
        self.iterations = 0
        self.idle = False
        self.t_end = None
        super().__init__(selector=FakeSelector(self))
        # half a tick: a timer is due iff its deadline (a multiple of TICK) is <= now, also beyond 2**24 s where now + 2**-30 == now
        self._clock_resolution = TICK / 2
        self.errors = []
        self.set_exception_handler(lambda loop, ctx: self.errors.append(ctx))

    def time(self):
        return self.vnow

    # ---- timers ordered by (when, creation sequence) ----
    def call_at(self, when, callback, *args, context=None):
        self._check_closed()
        timer = VTimerHandle(when, callback, args, self, context)
        self.armed_ticks.add(int(round(when / TICK)))
        self._tseq += 1
        timer._vseq = -self._tseq if self.rev_ties else self._tseq
        heapq.heappush(self._scheduled, timer)
        timer._scheduled = True
        return timer

    # ---- synthetic I/O ----
    def inject(self, when_ticks, callback):
        self._io_seq += 1
        heapq.heappush(self.pending_io, (when_ticks * TICK, self._io_seq, callback))

    def _vselect(self, timeout):
        out = []
        if self.pending_io and (timeout is None or self.pending_io[0][0] <= self.vnow + timeout):
            t = self.pending_io[0][0]
            early = int(round(t / TICK)) in self.early_at
            if t - (TICK / 4 if early else 0) > self.vnow:
                self.vnow = t - (TICK / 4 if early else 0)
            while self.pending_io and self.pending_io[0][0] <= t:
                _, _, cb = heapq.heappop(self.pending_io)
                h = asyncio.Handle(cb, (), self)
                out.append((selectors.SelectorKey(None, -1, selectors.EVENT_READ, (h, None)), selectors.EVENT_READ))
            return out
        if timeout is None:
            self.idle = True
            return out
        if timeout > 0:
            if self.t_end is not None and self.vnow + timeout > self.t_end:
                self.idle = True
                return out
            self.vnow += timeout
        return out

    def _process_events(self, event_list):
        for key, mask in event_list:
            reader, _ = key.data
            if reader is not None and not reader._cancelled:
                self._add_callback(reader)

    def _run_once(self):
        self.iterations += 1
        super()._run_once()

    def run_until_idle(self, t_end_ticks, max_iterations=200000):
        """Run until nothing is runnable before t_end (virtual), or the iteration budget is used up."""
        self.t_end = t_end_ticks * TICK
        self.idle = False
        asyncio.events._set_running_loop(self)
        try:
            n = 0
            while n < max_iterations:
                n += 1
                # stop when the loop would have to sleep beyond t_end or forever
                if not self._ready:
                    nxt = None
                    while self._scheduled and self._scheduled[0]._cancelled:
                        h = heapq.heappop(self._scheduled)
                        h._scheduled = False
                        self._timer_cancelled_count = max(0, self._timer_cancelled_count - 1)
                    if self._scheduled:
                        nxt = self._scheduled[0]._when
                    if self.pending_io:
                        nxt = self.pending_io[0][0] if nxt is None else min(nxt, self.pending_io[0][0])
                    if nxt is None or nxt > self.t_end:
                        return True
                self._run_once()
            return False
        finally:
            asyncio.events._set_running_loop(None)
