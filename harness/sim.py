"""Runs a scenario on the real pysomeip SD stack under the virtual-time loop and returns the canonical
trace in the same shape as Model/StackIO.v prints it."""
import ipaddress
import logging

import someip.config as C
import someip.header as H
import someip.sd as S

from . import conv, sexp
from .vloop import TICK, VLoop

logging.disable(logging.CRITICAL)  # pysomeip logs every rejected datagram; nothing is compared against log output

MC = ("224.224.224.245", 30490)


def addr_of(n):
    """Opaque address numbers of the model -> socket addresses: 1..99 hosts 10.0.0.n port 30490; 100..199 the SAME host as
    n-100 on another port (two peers on one machine); 200..299 IPv6 hosts; 300.. ONE link-local IPv6 address and port on
    different links (scope id n-300): different peers whose sockaddrs agree in host and port."""
    if n >= 300:
        return ("fe80::1", 30490, 0, n - 300)
    if n >= 200:
        return (f"2001:db8::{n:x}", 30490, 0, 0)
    if n >= 100:
        return (f"10.0.0.{n - 100}", 30491)
    return (f"10.0.0.{n}", 30490)


def addr_id(t):
    ip = ipaddress.ip_address(t[0])
    if ip.version == 6:
        if ip.is_link_local:
            return 300 + t[3]
        return int(ip) & 0xFFFF
    return (int(ip) & 0xFF) + (100 if t[1] == 30491 else 0)


class FakeRandom:
    def __init__(self, draws):
        self.draws = list(draws)

    def uniform(self, a, b):
        if not self.draws:
            return a
        d = self.draws.pop(0) * TICK
        return max(a, min(b, d))


class RecClient(S.ClientServiceListener):
    def __init__(self, sim, lid):
        self.sim, self.lid = sim, lid

    def __hash__(self):
        return self.lid

    def __eq__(self, other):
        return isinstance(other, RecClient) and other.lid == self.lid

    def service_offered(self, service, source):
        self.sim.emit([1, self.lid, conv.s_service(service), addr_id(source)])

    def service_stopped(self, service, source):
        self.sim.emit([2, self.lid, conv.s_service(service), addr_id(source)])


def s_sub(sub):
    return [sub.service_id, sub.instance_id, sub.major_version, sub.id, sub.counter, sub.ttl,
            sorted((conv.s_opt(o) for o in sub.endpoints), key=sexp.dumps), [conv.s_opt(o) for o in sub.options]]


class RecServer(S.ServerServiceListener):
    def __init__(self, sim, iid, reject):
        self.sim, self.iid, self.reject = sim, iid, set(reject)

    def client_subscribed(self, subscription, source):
        ok = subscription.id not in self.reject
        self.sim.emit([3, self.iid, s_sub(subscription), addr_id(source), ok])
        if not ok:
            raise S.NakSubscription

    def client_unsubscribed(self, subscription, source):
        self.sim.emit([4, self.iid, s_sub(subscription), addr_id(source)])


def _dest(remote):
    return None if (remote is None or tuple(remote) == MC) else [addr_id(remote)]


_HOOKED = False


def _install_collector_hook():
    """SendCollector._handle_timeout records the hand-over in the call history of the simulation its callback belongs to."""
    global _HOOKED
    if _HOOKED:
        return
    _HOOKED = True
    orig = S.SendCollector._handle_timeout

    def handle_timeout(self):
        sim = getattr(self.callback, "_verif_sim", None)
        if sim is not None:
            sim.ghost.append([sim.now(), 1, _dest(self.kwargs.get("remote")), [conv.s_entry(e) for e in self.data]])
        return orig(self)
    S.SendCollector._handle_timeout = handle_timeout


_STORE_HOOKED = False


def _s_key(entry):
    if isinstance(entry, S.EventgroupSubscription):
        return [1, s_sub(entry)]
    return [0, conv.s_service(entry)]


def _install_store_hook():
    """TimedStore.refresh / _expired record (re)storing and expiry in the call history of the simulation the store belongs to."""
    global _STORE_HOOKED
    if _STORE_HOOKED:
        return
    _STORE_HOOKED = True
    orig_refresh, orig_expired = S.TimedStore.refresh, S.TimedStore._expired

    def refresh(self, ttl, address, entry, callback_new, callback_expired):
        orig_refresh(self, ttl, address, entry, callback_new, callback_expired)     # NakSubscription: nothing is stored, nothing recorded
        tag = getattr(self, "_verif", None)
        if tag is not None:
            sim, sid = tag
            sim.ghost.append([sim.now(), 3, sid, addr_id(address), _s_key(entry), int(ttl)])

    def _expired(self, address, entry):
        present = entry in self.store.get(address, {})
        orig_expired(self, address, entry)
        tag = getattr(self, "_verif", None)
        if tag is not None and present:
            sim, sid = tag
            sim.ghost.append([sim.now(), 4, sid, addr_id(address), _s_key(entry)])
    S.TimedStore.refresh = refresh
    S.TimedStore._expired = _expired


class RecTransport:
    def __init__(self, sim):
        self.sim = sim

    def sendto(self, data, addr=None):
        dest = None if (addr is None or tuple(addr) == MC) else [addr_id(addr)]
        self.sim.emit([0, dest, bytes(data)])
        if self.sim.on_send:
            self.sim.on_send(dest, bytes(data))

    def get_extra_info(self, key):
        return None


def timings_of(c):
    (imin, imax, rmin, rmax, rep, base, cyc, fttl, attl, sttl, refresh, collect) = c
    return S.Timings(
        INITIAL_DELAY_MIN=imin * TICK, INITIAL_DELAY_MAX=imax * TICK,
        REQUEST_RESPONSE_DELAY_MIN=rmin * TICK, REQUEST_RESPONSE_DELAY_MAX=rmax * TICK,
        REPETITIONS_MAX=rep, REPETITIONS_BASE_DELAY=base * TICK, CYCLIC_OFFER_DELAY=cyc * TICK,
        FIND_TTL=fttl, ANNOUNCE_TTL=attl, SUBSCRIBE_TTL=sttl,
        SUBSCRIBE_REFRESH_INTERVAL=None if refresh is None else refresh * TICK,
        SEND_COLLECTION_TIMEOUT=collect * TICK)


class StackSim:
    """One ServiceDiscoveryProtocol on its own VLoop."""

    def __init__(self, sc, loop=None):
        self.sc = sc
        self.loop = loop or VLoop(rev_ties=sc["rev"])
        self.trace = []
        self.on_send = None
        self.timings = timings_of(sc["cfg"])
        self.rand = FakeRandom(sc["draws"])
        self.prot = S.ServiceDiscoveryProtocol(MC, timings=self.timings, logger="verif.sd")
        for lg in (self.prot.log, self.prot.discovery.log, self.prot.announcer.log, self.prot.subscriber.log, S.LOG):
            lg.disabled = True
        self.prot.transport = RecTransport(self)
        # call history, compared with the model's ghost history: queue_send calls, collector hand-overs, send_sd calls
        self.ghost = []
        _install_collector_hook()
        _install_store_hook()
        self.prot.discovery.found_services._verif = (self, [])
        orig_send, orig_queue = self.prot.send_sd, self.prot.announcer.queue_send

        def send_sd(entries, remote=None):
            if entries:
                self.ghost.append([self.now(), 2, [conv.s_entry(e) for e in entries], _dest(remote)])
            return orig_send(entries, remote=remote)
        send_sd._verif_sim = self
        self.prot.send_sd = send_sd

        def queue_send(entry, remote=None):
            self.ghost.append([self.now(), 0, conv.s_entry(entry), _dest(remote)])
            if self.timings.SEND_COLLECTION_TIMEOUT == 0:
                self.ghost.append([self.now(), 1, _dest(remote), [conv.s_entry(entry)]])   # handed over at once
            return orig_queue(entry, remote=remote)
        self.prot.announcer.queue_send = queue_send
        # registration of a recording listener that already has a registration (model: ghost event GMulti - finding F13's domain)
        disc = self.prot.discovery
        orig_watch, orig_watch_all = disc.watch_service, disc.watch_all_services

        def note_multi(listener):
            if isinstance(listener, RecClient) and (listener in disc.watcher_all_services
                                                    or any(listener in ls for ls in disc.watched_services.values())):
                self.ghost.append([self.now(), 5, listener.lid])

        def watch_service(service, listener):
            note_multi(listener)
            return orig_watch(service, listener)

        def watch_all_services(listener):
            note_multi(listener)
            return orig_watch_all(listener)
        disc.watch_service, disc.watch_all_services = watch_service, watch_all_services
        # a subscribe call for ids that are already requested from the same server (model: ghost event GDupSub - outside C14's quantification)
        sub = self.prot.subscriber
        orig_subscribe = sub.subscribe_eventgroup

        def subscribe_eventgroup(eventgroup, endpoint):
            ids = (eventgroup.service_id, eventgroup.instance_id, eventgroup.major_version, eventgroup.eventgroup_id)
            if any((g.service_id, g.instance_id, g.major_version, g.eventgroup_id) == ids and tuple(ep) == tuple(endpoint)
                   for g, ep in sub.subscribeentries):
                self.ghost.append([self.now(), 6, addr_id(endpoint)])
            return orig_subscribe(eventgroup, endpoint)
        sub.subscribe_eventgroup = subscribe_eventgroup
        # an exception that escapes a loop callback (e.g. a collector flush that cannot be encoded) is recorded where and when it happens
        self.loop.set_exception_handler(lambda loop, ctx: self.emit([5, conv.err_code(ctx.get("exception")) if ctx.get("exception") else 98]))
        self.clients = {}
        self.insts = {}
        for iid, svc, reject in sc["insts"]:
            # "inst_cfg": an instance with a Timings object of its OWN (model-free checks only: the model has one configuration)
            own = sc.get("inst_cfg", {}).get(iid)
            inst = S.ServiceInstance(conv.d_service(svc), RecServer(self, iid, reject), self.prot.announcer, self.timings if own is None else timings_of(own))
            inst.log.disabled = True
            inst.subscriptions._verif = (self, [iid])
            self.insts[iid] = inst
        for t, ev in sc["events"]:
            self.loop.inject(t, (lambda e: (lambda: self.do(e)))(ev))

    def now(self):
        return int(round(self.loop.vnow / TICK))

    def emit(self, ev):
        self.trace.append([self.now(), ev])

    def listener(self, l):
        if l[0] == 0:
            if l[1] not in self.clients:
                self.clients[l[1]] = RecClient(self, l[1])
            return self.clients[l[1]]
        raise ValueError("auto listeners are created through find_subscribe_eventgroup")

    def do(self, ev):
        old = S.random
        S.random = self.rand
        try:
            if ev[0] == 0:
                _, frm, mc, data = ev
                self.prot.datagram_received(bytes(data), addr_of(frm), bool(mc))
            else:
                try:
                    self.api(ev[1])
                except Exception as exc:  # noqa: BLE001
                    self.emit([5, conv.err_code(exc)])
        finally:
            S.random = old

    def soon(self, hops, c):
        """application code that makes the call `hops` loop iterations later (model: ApiSoon)"""
        if hops == 0:
            self.do((1, c))
        else:
            self.loop.call_soon(self.soon, hops - 1, c)

    def api(self, c):
        p, code = self.prot, c[0]
        if code in (22, 23, 24):
            return self.soon(code - 21, c[1])
        if code == 0:
            p.start()
        elif code == 1:
            p.stop()
        elif code == 2:
            p.connection_lost(None)
        elif code == 3:
            p.discovery.watch_service(conv.d_service(c[1]), self.listener(c[2]))
        elif code == 4:
            p.discovery.stop_watch_service(conv.d_service(c[1]), self.listener(c[2]))
        elif code == 5:
            p.discovery.watch_all_services(self.listener(c[1]))
        elif code == 6:
            p.discovery.stop_watch_all_services(self.listener(c[1]))
        elif code == 7:
            p.discovery.find_subscribe_eventgroup(conv.d_eg(c[1]))
        elif code == 8:
            p.discovery.stop_find_subscribe_eventgroup(conv.d_eg(c[1]))
        elif code == 9:
            p.subscriber.subscribe_eventgroup(conv.d_eg(c[1]), addr_of(c[2]))
        elif code == 10:
            p.subscriber.stop_subscribe_eventgroup(conv.d_eg(c[1]), addr_of(c[2]), send=bool(c[3]))
        elif code == 11:
            p.subscriber.start()
        elif code == 12:
            p.subscriber.stop(send_stop_subscribe=bool(c[1]))
        elif code == 13:
            p.discovery.start()
        elif code == 14:
            p.discovery.stop()
        elif code == 15:
            p.announcer.start()
        elif code == 16:
            p.announcer.stop()
        elif code == 17:
            p.announcer.announce_service(self.insts[c[1]])
        elif code == 18:
            p.announcer.stop_announce_service(self.insts[c[1]], send_stop=bool(c[2]))
        elif code == 19:
            p.announcer.queue_send(conv.d_entry(c[1]), remote=None if not c[2] else addr_of(c[2][0]))
        elif code == 20:
            p.send_sd([conv.d_entry(e) for e in c[1]], remote=None if not c[2] else addr_of(c[2][0]))
        elif code == 21:
            self.insts[c[1]].listener.reject = set(c[2])
        else:
            raise ValueError(code)

    def run(self):
        old = S.random
        S.random = self.rand
        try:
            completed = self.loop.run_until_idle(self.sc["end"], max_iterations=self.sc["fuel"])
        finally:
            S.random = old
        for ctx in self.loop.errors:
            exc = ctx.get("exception")
            self.trace.append([self.now(), [5, conv.err_code(exc) if exc else 98]])
        self.loop.errors.clear()
        return completed

    def final(self):
        def store(ts, keyf):
            return [[addr_id(a), [[keyf(k), v[1] is not None] for k, v in d.items()]] for a, d in ts.store.items() if d]
        p = self.prot
        return [
            store(p.discovery.found_services, lambda k: [0, conv.s_service(k)]),
            [[iid, store(inst.subscriptions, lambda k: [1, s_sub(k)]), bool(inst._can_answer_offers), inst._task is not None]
             for iid, inst in self.insts.items()],
            [[conv.s_eg(g), addr_id(ep)] for g, ep in p.subscriber.subscribeentries],
            bool(p.subscriber.alive), bool(p.announcer.started), self.now(),
        ]

    def close(self):
        """Finish every pending coroutine inside ITS OWN loop before dropping it: a suspended
        _offer_task that is garbage-collected later runs its `finally` (StopOffer -> queue_send ->
        call_later) on whatever loop happens to be running then, i.e. in another scenario."""
        import asyncio
        self.trace = []
        asyncio.events._set_running_loop(self.loop)
        try:
            for _ in range(20):
                pending = asyncio_tasks(self.loop)
                if not pending and not self.loop._ready:
                    break
                for t in pending:
                    t.cancel()
                for _ in range(5):
                    if self.loop._ready:
                        self.loop._run_once()
        except Exception:  # noqa: BLE001
            pass
        finally:
            asyncio.events._set_running_loop(None)
        self.loop.close()


def asyncio_tasks(loop):
    import asyncio
    return [t for t in asyncio.all_tasks(loop) if not t.done()]


def scenario_sexp(sc):
    c = list(sc["cfg"])
    c[10] = None if c[10] is None else [c[10]]
    events = []
    for t, ev in sc["events"]:
        if ev[0] == 0:
            events.append([t, [0, ev[1], bool(ev[2]), bytes(ev[3])]])
        else:
            events.append([t, [1, ev[1]]])
    return [c, [[i, s, list(r)] for i, s, r in sc["insts"]], list(sc["draws"]), events, sc["end"], bool(sc["rev"]), sc["fuel"]]


def canon_trace(tr):
    """Canonical form shared by both sides: endpoint sets of subscriptions sorted."""
    out = []
    for t, ev in tr:
        ev = list(ev)
        if ev[0] in (3, 4):
            s = list(ev[2])
            s[6] = sorted(s[6], key=sexp.dumps)
            ev[2] = s
        out.append([t, ev])
    return out


def run_impl(sc, early_at=()):
    sim = StackSim(sc, loop=VLoop(rev_ties=sc["rev"], early_at=early_at)) if early_at else StackSim(sc)
    try:
        completed = sim.run()
        run_impl.last_armed_ticks = set(sim.loop.armed_ticks)
        return canon_trace(sim.trace), completed, (sim.final(), list(sim.ghost))
    finally:
        sim.close()


def run_model(ctx, scs):
    """Runs scenarios on the extracted model; returns list of (trace, completed, final) parsed."""
    outs = ctx.model.batch([(3001, scenario_sexp(sc)) for sc in scs])
    res = []
    for o in outs:
        v = sexp.loads(o)
        if len(v) != 4:
            raise RuntimeError("model rejected the scenario: " + o[:200])
        res.append((canon_trace(v[0]), bool(v[1]), (v[2], v[3])))
    return res


def norm(x):
    """bools -> ints, tuples -> lists, b'' -> [] so parsed model output and python structures compare equal"""
    if isinstance(x, bool):
        return int(x)
    if isinstance(x, (list, tuple)):
        return [norm(y) for y in x]
    if x is None or x == b"":
        return []
    return x
