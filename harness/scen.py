"""Scenario generators for the SD stack (timed external events + oracle values + configuration).
Times are microticks (2^-20 s).  Every random choice comes from the Random instance passed in."""
import ipaddress

import someip.config as C
import someip.header as H

from . import conv, gen

T = 1 << 20  # one second
MS = T // 1024  # ~1 ms (dyadic)

SERVICES = [
    C.Service(0x1111, 1, 1, 7, eventgroups=frozenset({5, 6})),
    C.Service(0x1111, 2, 1, 7, eventgroups=frozenset({5})),
    C.Service(0x2222, 1, 2, 0, eventgroups=frozenset({9})),
]
FILTERS = [
    C.Service(0x1111), C.Service(0x1111, 1), C.Service(0x1111, 0xFFFF, 1, 7), C.Service(0x2222, 1, 2, 0),
    C.Service(0x1111, 2, 0xFF, 0xFFFFFFFF), C.Service(0x3333),
    C.Service(0x1111, 0xFFFF, 0xFF, 7),          # wildcard major with a concrete minor version
]
TTLS = [1, 2, 3, 0xFFFFFF]


def ep_opt(n, port=4000, tcp=False):
    return H.IPv4EndpointOption(address=ipaddress.IPv4Address("10.0.0.%d" % n), l4proto=H.L4Protocols.TCP if tcp else H.L4Protocols.UDP, port=port)


def timings(r, profile="default"):
    """(init_min init_max rr_min rr_max rep_max rep_base cyclic find_ttl announce_ttl subscribe_ttl refresh collect)"""
    collect = r.choice([0, 1, 5 * MS, 5 * MS])
    imin = r.choice([0, 0, 10 * MS])
    imax = imin + r.choice([0, 50 * MS, T // 2])
    rr_min = r.choice([0, 10 * MS])
    rr_max = rr_min + r.choice([0, 40 * MS])
    rep = r.choice([0, 1, 2, 3, 4])
    base = r.choice([0, 10 * MS, T // 8])
    cyc = r.choice([0, T, T, 2 * T, T // 2])
    refresh = r.choice([None, T, 2 * T, 3 * T])
    return (imin, imax, rr_min, rr_max, rep, base, cyc, r.choice([1, 3]), r.choice([1, 3, 0xFFFFFF]), r.choice([2, 5, 0xFFFFFF]), refresh, collect)


def sd_datagram(entries, session, reboot=True, unicast=True):
    hdr = H.SOMEIPSDHeader(entries=tuple(entries), flag_reboot=reboot, flag_unicast=unicast)
    return gen.sd_message_bytes(None, hdr, session=session)


class Peer:
    """A remote SD peer with proper session handling (ids count up, reboot flag until wrap); reboot() restarts it."""

    def __init__(self, addr):
        self.addr = addr
        self.sid = {False: 1, True: 1}
        self.flag = {False: True, True: True}

    def reboot(self):
        self.sid = {False: 1, True: 1}
        self.flag = {False: True, True: True}

    def datagram(self, entries, mc=False, unicast_flag=True):
        sid, flag = self.sid[mc], self.flag[mc]
        self.sid[mc] = sid + 1
        return sd_datagram(entries, sid, flag, unicast_flag)


def jitter_times(r, base_times, end):
    """Times placed on, one tick before/after, and anywhere around interesting instants."""
    c = r.random()
    if base_times and c < 0.5:
        t = r.choice(base_times) + r.choice([-1, 0, 0, 0, 1])
    elif c < 0.7:
        t = r.randrange(0, end, T // 4)
    else:
        t = r.randrange(0, end)
    return max(0, min(end, t))


def discovery_scenario(r, length=None, small=False):
    """Offers / stop-offers / reboots / connection loss / watch calls (C05, C09, C13)."""
    cfg = list(timings(r))
    cfg[11] = r.choice([0, 5 * MS])
    end = r.choice([6, 8, 12]) * T
    peers = {a: Peer(a) for a in ((1,) if small else (1, 2, 3, 101))}     # 101: another port on the host of peer 1
    svcs = SERVICES[:2] if small else SERVICES
    n = length if length is not None else r.randint(2, 12)
    events = []
    deadlines = []
    draws = [r.choice([0, cfg[1], cfg[0], (cfg[0] + cfg[1]) // 2])] * 4
    started = False
    t = 0
    raw = []
    for _ in range(n):
        t = jitter_times(r, deadlines, end - T)
        c = r.random()
        if c < 0.45:
            a = r.choice(list(peers))
            s = r.choice(svcs)
            ttl = r.choice(TTLS)
            k = r.random()
            if k < 0.2:
                ttl = 0
            es = [s.create_offer_entry(ttl)]
            if r.random() < 0.2:
                es.append(r.choice(svcs).create_offer_entry(r.choice(TTLS + [0])))
            if r.random() < 0.15:
                peers[a].reboot()
            raw.append((t, ("dg", a, r.random() < 0.5, es)))
            if 0 < ttl < 0xFFFFFF:
                deadlines.append(t + ttl * T)
        elif c < 0.52:
            a = r.choice(list(peers))
            peers[a].reboot()
            raw.append((t, ("dg", a, False, [])))
        elif c < 0.58:
            raw.append((t, ("api", [2])))
        elif c < 0.75:
            raw.append((t, ("api", [3, conv.s_service(r.choice(FILTERS)), [0, r.randint(0, 2)]])))
        elif c < 0.82:
            raw.append((t, ("api", [4, conv.s_service(r.choice(FILTERS)), [0, r.randint(0, 2)]])))
        elif c < 0.92:
            raw.append((t, ("api", [5, [0, r.randint(0, 2)]])))
        elif c < 0.96:
            raw.append((t, ("api", [6, [0, r.randint(0, 2)]])))
        else:
            raw.append((t, ("api", [13 if not started else 14])))
            started = not started
    raw.sort(key=lambda x: x[0])
    # sessions are assigned in arrival order
    for t, ev in raw:
        if ev[0] == "dg":
            _, a, mc, es = ev
            events.append((t, (0, a, mc, peers_datagram(peers, a, es, mc))))
        else:
            events.append((t, (1, ev[1])))
    events = [e for e in events if e[0] < end]
    draws = draws * 16
    return dict(cfg=tuple(cfg), insts=[], draws=draws, events=events, end=end, rev=r.random() < 0.3, fuel=20000)


def peers_datagram(peers, a, es, mc):
    return peers[a].datagram(es, mc)


def sub_entry(r, svc, eg, ttl, counter=0, eps=1, extra=False, ep_n=1):
    opts = [ep_opt(ep_n, 4000 + i) for i in range(eps)]
    if extra:
        opts.append(H.SOMEIPSDLoadBalancingOption(priority=1, weight=2))
    return H.SOMEIPSDEntry(H.SOMEIPSDEntryType.Subscribe, svc.service_id, svc.instance_id, svc.major_version, ttl,
                           (counter << 16) | eg, options_1=tuple(opts))


def server_scenario(r, length=None, small=False):
    """Subscribe / StopSubscribe / reboot / service stop+start / connection loss / finds (C06, C09, C11, C12, C10)."""
    cfg = list(timings(r))
    end = r.choice([6, 8, 12]) * T
    peers = {a: Peer(a) for a in ((1,) if small else (1, 2, 3, 101))}     # 101: another port on the host of peer 1
    ninst = r.choice([1, 1, 2, 3])
    insts = []
    for i in range(ninst):
        svc = SERVICES[i]
        insts.append((i + 1, conv.s_service(svc), r.choice([[], [], [6], [5]])))
    d0 = r.choice([cfg[0], cfg[1], (cfg[0] + cfg[1]) // 2])
    drr = r.choice([cfg[2], cfg[3]])
    draws = [d0] * 8 if r.random() < 0.7 else [d0, drr, d0, drr, d0, drr]
    raw = [(0, ("api", [17, i + 1])) for i in range(ninst)]
    raw.append((r.choice([0, 0, T // 2]), ("api", [0])))
    n = length if length is not None else r.randint(2, 12)
    deadlines = []
    phase = [d0, d0 + cfg[5], d0 + 3 * cfg[5], d0 + 7 * cfg[5], d0 + cfg[6]]
    running = True
    announced = set(range(1, ninst + 1))
    for _ in range(n):
        t = jitter_times(r, deadlines + phase, end - T)
        c = r.random()
        a = r.choice(list(peers))
        if c < 0.4:
            i = r.randrange(ninst)
            svc = SERVICES[i]
            eg = r.choice(sorted(svc.eventgroups) + [77])
            ttl = r.choice(TTLS + [0])
            c2 = r.random()
            if c2 < 0.12:
                svc = C.Service(svc.service_id, svc.instance_id + 7, svc.major_version)
            elif c2 < 0.2:
                # wildcards in the ENTRY are no wildcards: such a Subscribe matches no concrete instance
                svc = C.Service(svc.service_id, r.choice([0xFFFF, svc.instance_id]), r.choice([0xFF, svc.major_version]))
            es = [sub_entry(r, svc, eg, ttl, r.choice([0, 0, 1, 15]), r.choice([1, 1, 1, 0, 2]), r.random() < 0.2, ep_n=a)]
            if r.random() < 0.2:
                es.append(sub_entry(r, SERVICES[r.randrange(ninst)], 5, r.choice(TTLS), 0, 1, ep_n=a))
            if r.random() < 0.12:
                peers[a].reboot()
            mixed = r.random() < 0.2
            if mixed:
                # entries of different kinds in ONE message: a FindService before or behind the Subscribe(s)
                fe = r.choice(FILTERS + [SERVICES[0], SERVICES[1]]).create_find_entry(3)
                es = [fe] + es if r.random() < 0.4 else es + [fe]
            raw.append((t, ("dg", a, r.random() < (0.4 if mixed else 0.1), es)))
            if 0 < ttl < 0xFFFFFF:
                deadlines.append(t + ttl * T)
        elif c < 0.47:
            peers[a].reboot()
            raw.append((t, ("dg", a, False, [])))
        elif c < 0.7:
            f = r.choice(FILTERS + [SERVICES[0], SERVICES[1]])
            raw.append((t, ("dg", a, r.random() < 0.5, [f.create_find_entry(3)])))
        elif c < 0.8:
            raw.append((t, ("api", [16 if running else 15])))
            running = not running
        elif c < 0.86:
            raw.append((t, ("toggle-announce", r.randint(1, ninst), r.random() < 0.8)))
        elif c < 0.94:
            raw.append((t, ("api", [2])))
        else:
            raw.append((t, ("api", [1 if running else 0])))
            running = not running
    if r.random() < 0.35:
        # directed: a live subscription, then a datagram that reveals a reboot AND renews / replaces it;
        # or a service stop+start followed by a Subscribe at the same instant
        a = r.choice(list(peers))
        svc = SERVICES[0]
        t1 = r.randrange(T, end // 2)
        t2 = t1 + r.choice([1, T // 2, T])
        e1 = sub_entry(r, svc, 5, r.choice([3, 0xFFFFFF]), 0, 1, ep_n=a)
        raw.append((t1, ("dg", a, False, [e1])))
        if r.random() < 0.6:
            raw.append((t2, ("reboot-dg", a, False, [sub_entry(r, svc, r.choice([5, 5, 6]), r.choice([3, 0xFFFFFF]), 0, 1, ep_n=a)])))
        else:
            raw.append((t2, ("api", [16])))
            raw.append((t2, ("api", [15])))
            raw.append((t2 + cfg[1] + cfg[5] * 16 + 1, ("dg", a, False, [e1])))
    raw.sort(key=lambda x: x[0])
    events = []
    for t, ev in raw:
        if ev[0] == "toggle-announce":
            # an instance is announced at most once at a time (announcing it twice is a misuse outside every property)
            _, i, send = ev
            if i in announced:
                announced.discard(i)
                events.append((t, (1, [18, i, send])))
            else:
                announced.add(i)
                events.append((t, (1, [17, i])))
            continue
        if ev[0] in ("dg", "reboot-dg"):
            _, a, mc, es = ev
            if ev[0] == "reboot-dg":
                peers[a].reboot()
            events.append((t, (0, a, mc, peers[a].datagram(es, mc))))
        else:
            events.append((t, (1, ev[1])))
    events = [e for e in events if e[0] < end]
    events = defer_some_api(r, events)
    draws = draws * 8 if draws and len(set(draws)) == 1 else draws
    return dict(cfg=tuple(cfg), insts=insts, draws=draws, events=events, end=end, rev=r.random() < 0.3, fuel=20000)


def pair_in_one_message(r):
    """Subscribe and StopSubscribe for the SAME subscription in ONE message (both orders, also Subscribe - Stop - Subscribe), or
    in two datagrams of one instant - with the subscription live before or not, and placed on, one tick around and away
    from the deadline of the live subscription (a stop + re-add exactly when the old TTL timer is due)."""
    from . import conv
    cfg = list(timings(r))
    cfg[6] = T
    cfg[11] = r.choice([0, 5 * MS])
    svc = SERVICES[0]
    who = r.choice([1, 2])
    peers = {1: Peer(1), 2: Peer(2)}
    events = [(0, (1, [17, 1])), (0, (1, [0]))]
    t0 = T // 2 + r.choice([0, T // 4])
    ttl1 = r.choice([1, 2, 3, 0xFFFFFF])
    eg = r.choice([5, 5, 6])
    live = r.random() < 0.7
    if live:
        events.append((t0, (0, who, False, peers[who].datagram([sub_entry(r, svc, eg, ttl1, 0, 1, ep_n=who)], False))))
    if live and ttl1 != 0xFFFFFF and r.random() < 0.7:
        tp = t0 + ttl1 * T + r.choice([0, 0, 0, -1, 1])
    else:
        tp = t0 + r.choice([1, T // 8, T // 2, T + T // 2])
    ttl2 = r.choice([1, 3, 0xFFFFFF])
    s2 = sub_entry(r, svc, eg, ttl2, 0, 1, ep_n=who)
    st = sub_entry(r, svc, eg, 0, 0, 1, ep_n=who)
    order = r.choice(["stop-sub", "stop-sub", "sub-stop", "sub-stop", "sub-stop-sub", "stop-sub-stop"])
    es = {"stop-sub": [st, s2], "sub-stop": [s2, st], "sub-stop-sub": [s2, st, s2], "stop-sub-stop": [st, s2, st]}[order]
    if r.random() < 0.25:
        other = 2 if who == 1 else 1
        es = es + [sub_entry(r, svc, 6 if eg == 5 else 5, 3, 0, 1, ep_n=who)]
    if r.random() < 0.75:
        events.append((tp, (0, who, False, peers[who].datagram(es, False))))
    else:
        for e in es:
            events.append((tp, (0, who, False, peers[who].datagram([e], False))))
    end = tp + (ttl2 if ttl2 != 0xFFFFFF else 2) * T + 2 * T
    return dict(cfg=tuple(cfg), insts=[(1, conv.s_service(svc), [])], draws=[0] * 8, events=events, end=end, rev=r.random() < 0.3, fuel=20000)


def two_channels_one_instant(r):
    """A subscriber known on BOTH channels; in ONE instant a multicast message of it reveals its reboot (a FindService or an
    empty message) and a unicast message carries its Subscribe - in both arrival orders, with the unicast channel known
    before or not (so the Subscribe's own message reveals the reboot too, or does not), the subscription live before or not."""
    from . import conv
    cfg = list(timings(r))
    cfg[6] = T
    cfg[11] = r.choice([0, 5 * MS])
    svc = SERVICES[0]
    who = r.choice([1, 2])
    p = Peer(who)
    events = [(0, (1, [17, 1])), (0, (1, [0]))]
    t0 = T // 2
    fe = C.Service(0x3333).create_find_entry(3)
    events.append((t0, (0, who, True, p.datagram([fe] if r.random() < 0.5 else [], True))))          # known on the multicast channel
    eg = r.choice([5, 6])
    live = r.random() < 0.6
    if live or r.random() < 0.5:
        es = [sub_entry(r, svc, eg, r.choice([3, 0xFFFFFF]), 0, 1, ep_n=who)] if live else [fe]
        events.append((t0 + T // 4, (0, who, False, p.datagram(es, False))))                            # known on the unicast channel
    t1 = t0 + r.choice([T // 2, T, T + 1])
    p.reboot()
    mcd = (t1, (0, who, True, p.datagram([fe] if r.random() < 0.5 else [], True)))
    ucd = (t1, (0, who, False, p.datagram([sub_entry(r, svc, eg, r.choice([3, 0xFFFFFF]), 0, 1, ep_n=who)], False)))
    events += [mcd, ucd] if r.random() < 0.7 else [ucd, mcd]
    if r.random() < 0.3:
        events.append((t1 + T // 2, (0, who, False, p.datagram([sub_entry(r, svc, eg, 3, 0, 1, ep_n=who)], False))))
    return dict(cfg=tuple(cfg), insts=[(1, conv.s_service(svc), [])], draws=[0] * 8, events=events, end=t1 + 5 * T, rev=r.random() < 0.3, fuel=20000)


def link_local_twins(r):
    """Two subscribers / requesters whose sockaddrs agree in host and port and differ in the IPv6 scope id (two links), and
    an ordinary third one: Subscribes and FindServices of all of them in one instant and within one collection window -
    every answer goes to the sender of its request."""
    from . import conv
    cfg = list(timings(r))
    cfg[6] = T
    cfg[11] = r.choice([5 * MS, 5 * MS, 20 * MS, 0])
    svc = SERVICES[0]
    peers = {a: Peer(a) for a in (301, 302, 1)}
    events = [(0, (1, [17, 1])), (0, (1, [0]))]
    t = T + r.choice([0, T // 4])
    for _ in range(r.randint(1, 3)):
        order = r.sample([301, 302, 1], r.choice([2, 3, 3]))
        for a in order:
            c = r.random()
            if c < 0.6:
                es = [sub_entry(r, svc, r.choice([5, 6, 77]), r.choice([3, 0xFFFFFF, 0]), 0, 1, ep_n=1 + a % 3)]
            elif c < 0.85:
                es = [r.choice([SERVICES[0], C.Service(0x1111)]).create_find_entry(3)]
            else:
                es = [sub_entry(r, svc, 5, 3, 0, 1, ep_n=1 + a % 3), C.Service(0x1111).create_find_entry(3)]
            events.append((t, (0, a, False, peers[a].datagram(es, False))))
            t += r.choice([0, 0, 1, cfg[11] // 2 if cfg[11] else 1])
        t += r.choice([T // 4, T])
    return dict(cfg=tuple(cfg), insts=[(1, conv.s_service(svc), [])], draws=[0] * 8, events=events, end=t + 4 * T, rev=r.random() < 0.3, fuel=20000)


def wildcard_instance(r):
    """A server instance CONFIGURED with wildcard ids (instance 0xFFFF and / or major version 0xFF) next to a concrete one:
    Subscribes, StopSubscribes and FindServices with concrete ids - every answer echoes the ids of the REQUEST."""
    from . import conv
    cfg = list(timings(r))
    cfg[6] = T
    cfg[11] = r.choice([0, 5 * MS])
    wild = C.Service(0x1111, r.choice([0xFFFF, 0xFFFF, 3]), r.choice([0xFF, 0xFF, 1]), 7, eventgroups=frozenset({5, 6}))
    if wild.instance_id != 0xFFFF and wild.major_version != 0xFF:
        wild = C.Service(0x1111, 0xFFFF, 1, 7, eventgroups=frozenset({5, 6}))
    conc = C.Service(0x2222, 1, 2, 0, eventgroups=frozenset({9}))
    peers = {a: Peer(a) for a in (1, 2)}
    events = [(0, (1, [17, 1])), (0, (1, [17, 2])), (0, (1, [0]))]
    t = T
    for _ in range(r.randint(2, 6)):
        a = r.choice([1, 2])
        c = r.random()
        if c < 0.7:
            req = C.Service(0x1111, r.choice([0x42, 0x43, 1, wild.instance_id]), r.choice([9, 1, wild.major_version]))
            es = [sub_entry(r, req, r.choice([5, 6, 77]), r.choice([3, 0xFFFFFF, 0]), r.choice([0, 1]), 1, ep_n=a)]
            if r.random() < 0.3:
                es.append(sub_entry(r, conc, 9, 3, 0, 1, ep_n=a))
        else:
            es = [C.Service(0x1111, r.choice([0x42, 0xFFFF]), r.choice([9, 0xFF])).create_find_entry(3)]
        events.append((t, (0, a, False, peers[a].datagram(es, False))))
        t += r.choice([1, T // 4, T])
    return dict(cfg=tuple(cfg), insts=[(1, conv.s_service(wild), []), (2, conv.s_service(conc), [])], draws=[0] * 8, events=events, end=t + 4 * T, rev=r.random() < 0.3, fuel=20000)


def defer_some_api(r, events, p=0.15):
    """An application call that is the only call of its instant is made, now and then, one to three loop iterations INTO the
    instant (ApiSoon, codes 22-24): behind whatever the datagrams of that instant trigger."""
    napi = {}
    for t, ev in events:
        if ev[0] == 1:
            napi[t] = napi.get(t, 0) + 1
    out = []
    for t, ev in events:
        if ev[0] == 1 and t > 0 and napi[t] == 1 and ev[1][0] < 22 and r.random() < p:
            out.append((t, (1, [r.choice([22, 23, 24]), ev[1]])))
        else:
            out.append((t, ev))
    return out


EGS = [
    C.Eventgroup(0x1111, 1, 1, 5, ("10.0.0.9", 4100), H.L4Protocols.UDP),
    C.Eventgroup(0x1111, 1, 1, 6, ("2001:db8::9", 4101, 0, 0), H.L4Protocols.TCP),
    C.Eventgroup(0x2222, 1, 2, 9, ("10.0.0.9", 4102), H.L4Protocols.TCP),
    # the same local socket address as the first one, the other transport protocol (UDP and TCP share the port)
    C.Eventgroup(0x2222, 1, 2, 10, ("10.0.0.9", 4100), H.L4Protocols.TCP),
    C.Eventgroup(0x1111, 1, 1, 7, ("2001:db8::9", 4101, 0, 0), H.L4Protocols.UDP),
]


def subscriber_scenario(r, length=None):
    """subscribe / stop-subscribe / start / stop of the client subscriber (C14)."""
    cfg = list(timings(r))
    cfg[11] = r.choice([0, 5 * MS])
    end = r.choice([6, 9, 12]) * T
    refresh = cfg[10]
    inst = [refresh * k for k in range(1, 5)] if refresh else []
    n = length if length is not None else r.randint(2, 12)
    raw = []
    requested = set()
    alive = False
    for _ in range(n):
        t = jitter_times(r, inst, end - T)
        raw.append(t)
    raw.sort()
    events = []
    for t in raw:
        c = r.random()
        g, srv = r.choice(EGS), r.choice([1, 2])
        if c < 0.4 and (g, srv) not in requested:
            events.append((t, (1, [9, conv.s_eg(g), srv])))
            requested.add((g, srv))
        elif c < 0.6 and requested:
            g, srv = r.choice(sorted(requested, key=lambda x: (x[0].eventgroup_id, x[1])))
            events.append((t, (1, [10, conv.s_eg(g), srv, r.random() < 0.85])))
            requested.discard((g, srv))
        elif c < 0.8:
            events.append((t, (1, [12, r.random() < 0.8] if alive else [11])))
            alive = not alive
        else:
            events.append((t, (1, [11] if not alive else [9, conv.s_eg(g), srv]))) if (not alive or (g, srv) not in requested) else None
            if not alive:
                alive = True
            else:
                requested.add((g, srv))
    events = [e for e in events if e]
    return dict(cfg=tuple(cfg), insts=[], draws=[], events=events, end=end, rev=r.random() < 0.3, fuel=20000)


def queue_scenario(r, length=None, dests=None):
    """queue_send requests for several destinations (C15)."""
    cfg = list(timings(r))
    cfg[11] = r.choice([0, 1, 5 * MS, 5 * MS])
    collect = cfg[11]
    end = 2 * T
    n = length if length is not None else r.randint(1, 14)
    events = []
    t = 0
    opens = []
    bad_batches = r.random() < 0.3
    for _ in range(n):
        c = r.random()
        if opens and collect and c < 0.35:
            t = r.choice(opens) + collect + r.choice([-1, 0, 0, 1])
        elif c < 0.6:
            t = t + r.choice([0, 0, 1, collect // 2 if collect else 0])
        else:
            t = r.randrange(0, T)
        t = max(0, t)
        dest = r.choice([None, [1], [2], [3]] if dests is None else dests)
        burst = r.choice([1, 1, 1, 2, 5, 17, 40]) if r.random() < 0.5 else 1
        for _ in range(burst):
            svc = r.choice(SERVICES)
            e = svc.create_offer_entry(r.choice([0, 3])) if r.random() < 0.6 else H.SOMEIPSDEntry(H.SOMEIPSDEntryType.SubscribeAck, svc.service_id, svc.instance_id, 1, r.choice([0, 3]), r.randint(0, 15) << 16 | 5)
            if bad_batches and r.random() < 0.08:
                # an entry that cannot be encoded (instance id beyond 16 bits): its whole batch is lost (outside the property's
                # domain), but whatever is queued for that destination afterwards must still be sent
                e = H.SOMEIPSDEntry(H.SOMEIPSDEntryType.OfferService, svc.service_id, 0x12345, 1, 3, 0)
                events.append((t, (1, [19, conv.s_entry(e), dest])))
                t += collect + 1       # whatever follows is outside the lost batch's window
                break
            events.append((t, (1, [19, conv.s_entry(e), dest])))
        opens.append(t)
    events.sort(key=lambda x: x[0])
    if bad_batches:
        # keep the window after an unencodable entry free of further entries for that destination, and queue good ones afterwards
        for tb, (_, c) in [ev for ev in events if ev[1][1][1][2] == 0x12345]:
            dest = c[2]
            events = [(tt + collect + 1 if (cc[2] == dest and tb < tt <= tb + collect) else tt, (k, cc)) for tt, (k, cc) in events]
            svc = r.choice(SERVICES)
            for j in range(r.randint(1, 3)):
                events.append((tb + collect + 1 + j * r.choice([0, 1, collect]), (1, [19, conv.s_entry(svc.create_offer_entry(3)), dest])))
        events.sort(key=lambda x: x[0])
    return dict(cfg=tuple(cfg), insts=[], draws=[], events=events, end=max(end, (events[-1][0] if events else 0) + 2 * collect + 10), rev=r.random() < 0.3, fuel=20000)


def lifecycle_scenario(r):
    """Directed at C10/C12: one or two instances, FindService requests placed shortly before, exactly at (both
    orders) and after a stop, in every phase of the offer lifecycle, cyclic and non-cyclic, with and without collection."""
    cfg = list(timings(r))
    cfg[4] = r.choice([0, 1, 2, 3])            # repetitions
    cfg[5] = r.choice([10 * MS, T // 8])        # base delay
    cfg[6] = r.choice([0, 0, T, T // 2])        # cyclic period or none
    cfg[11] = r.choice([0, 1, 5 * MS, 5 * MS, 20 * MS])
    collect = cfg[11]
    ninst = r.choice([1, 1, 2])
    insts = [(i + 1, conv.s_service(SERVICES[i]), []) for i in range(ninst)]
    d0 = r.choice([cfg[0], cfg[1]])
    drr = r.choice([cfg[2], cfg[3]])
    draws = [d0] * 64 if d0 == drr else ([d0] * 64 if r.random() < 0.5 else [drr] * 64)
    d0 = max(cfg[0], min(cfg[1], draws[0]))
    drr = max(cfg[2], min(cfg[3], draws[0]))
    raw = [(0, ("api", [17, i + 1])) for i in range(ninst)]
    raw.append((0, ("api", [0])))
    # phase instants of the fault-free run
    reps = [d0]
    for i in range(cfg[4]):
        reps.append(reps[-1] + (1 << i) * cfg[5])
    phases = reps + ([reps[-1] + cfg[6], reps[-1] + 2 * cfg[6]] if cfg[6] else [reps[-1] + T // 4])
    te = r.choice(phases) + r.choice([-1, 0, 1, collect // 2, T // 16, r.randrange(0, T // 2)])
    te = max(1, te)
    stop_api = r.choice([[16], [16], [1], [18, 1, True]])
    peers = {a: Peer(a) for a in (1, 2)}
    finds = []
    for _ in range(r.randint(1, 4)):
        a = r.choice([1, 2])
        mc = r.random() < 0.4
        off = r.choice([-collect - 1, -collect, -collect // 2 - 1, -1, 0, 0, 1, collect // 2, -drr, -drr - 1, -drr + 1, r.randrange(-T // 4, T // 4)])
        f = r.choice([SERVICES[0], C.Service(0x1111), FILTERS[1]])
        finds.append((max(0, te + off), ("dg", a, mc, [f.create_find_entry(3)])))
    raw.extend(finds)
    raw.append((te, ("api", stop_api)))
    restart = None
    if r.random() < 0.5:
        t2 = te + r.choice([0, 1, collect, collect + 1, T // 2, T])
        restart = (t2, ("api", {16: [15], 1: [0], 18: [17, 1]}[stop_api[0]]))
        if t2 != te:
            raw.append(restart)
    # stable sort: events of one instant keep their relative order, which is randomised here
    r.shuffle(raw)
    raw.sort(key=lambda x: x[0])
    if restart is not None and restart[0] == te:
        # restart in the very iteration of the stop: directly after it (the other order would be a double start)
        k = [j for j, x in enumerate(raw) if x[0] == te and x[1] == ("api", stop_api)][0]
        raw.insert(k + 1, restart)
    events = []
    for t, ev in raw:
        if ev[0] == "dg":
            _, a, mc, es = ev
            events.append((t, (0, a, mc, peers[a].datagram(es, mc))))
        else:
            events.append((t, (1, ev[1])))
    return dict(cfg=tuple(cfg), insts=insts, draws=draws, events=events, end=max(te + 3 * T, 4 * T), rev=r.random() < 0.3, fuel=20000)
