"""Runs a service-endpoint scenario (SimpleService + one SimpleEventgroup) on the real code under the
virtual-time loop and returns the canonical trace in the shape Model/ServiceStack.v prints it."""
import asyncio
import ipaddress
import logging
import socket

import someip.header as H
import someip.sd as S
import someip.service as SV

from . import sexp
from .vloop import TICK, VLoop

logging.disable(logging.CRITICAL)


def ep_option(ep):
    v6, n, port = ep
    if v6:
        return H.IPv6EndpointOption(address=ipaddress.IPv6Address("2001:db8::%x" % n), l4proto=H.L4Protocols.UDP, port=port)
    return H.IPv4EndpointOption(address=ipaddress.IPv4Address((10 << 24) + n), l4proto=H.L4Protocols.UDP, port=port)


def dest_of(addr):
    ip = ipaddress.ip_address(addr[0])
    if ip.version == 6:
        return (1 << 32) + (int(ip) & 0xFFFF) * 65536 + addr[1]
    return (int(ip) & 0xFFFFFF) * 65536 + addr[1]


class Transport:
    def __init__(self, sim):
        self.sim = sim

    def sendto(self, data, addr=None):
        self.sim.emit([0, dest_of(addr), bytes(data)])

    def get_extra_info(self, key):
        return ("10.0.0.200", 30500) if key == "sockname" else None


class ServiceSim:
    def __init__(self, sc):
        self.sc = sc
        svc, major, egid, interval, resolve, values, events, end, fuel = sc
        self.loop = VLoop()
        self.trace = []
        self.resolve = resolve
        loop = self.loop

        async def gai(host, port, *, family=0, type=0, proto=0, flags=0):
            if self.resolve:
                await asyncio.sleep(self.resolve * TICK)
            ip = ipaddress.ip_address(host)
            if ip.version == 6:
                return [(socket.AF_INET6, type, proto, "", (str(ip), port, 0, 0))]
            return [(socket.AF_INET, type, proto, "", (str(ip), port))]

        loop.getaddrinfo = gai
        cls = type("VerifService", (SV.SimpleService,), dict(service_id=svc, version_major=major, version_minor=0))
        asyncio.events._set_running_loop(loop)
        try:
            self.svc = cls(1)
            self.svc.log.disabled = True
            self.svc.transport = Transport(self)
            self.eg = SV.SimpleEventgroup(self.svc, egid, interval=(interval * TICK) if interval else None)
            self.eg.log.disabled = True
            for ev, p in values:
                self.eg.values[ev] = bytes(p)
            self.svc.register_eventgroup(self.eg)
        finally:
            asyncio.events._set_running_loop(None)
        for t, c in events:
            loop.inject(t, (lambda cc: (lambda: self.do(cc)))(c))

    def now(self):
        return int(round(self.loop.vnow / TICK))

    def emit(self, ev):
        self.trace.append([self.now(), ev])

    def sub(self, eg, eps):
        return S.EventgroupSubscription(service_id=self.svc.service_id, instance_id=1, major_version=self.svc.version_major,
                                        id=eg, counter=0, ttl=3, endpoints=frozenset(ep_option(e) for e in eps))

    def do(self, c):
        code = c[0]
        src = ("10.0.0.1", 30490)
        if code == 0:
            try:
                self.svc.client_subscribed(self.sub(c[1], c[2]), src)
            except S.NakSubscription:
                self.emit([1])
            except Exception:  # noqa: BLE001
                self.emit([2, 98])
        elif code == 1:
            try:
                self.svc.client_unsubscribed(self.sub(c[1], c[2]), src)
            except AssertionError:
                self.emit([2, 97])
            except StopIteration:
                self.emit([2, 96])
            except Exception:  # noqa: BLE001
                self.emit([2, 98])
        elif code == 2:
            self.eg.values[c[1]] = bytes(c[2])
        elif code == 3:
            try:
                self.eg.notify_once(list(c[1]))
            except Exception:  # noqa: BLE001
                self.emit([2, 98])
        else:
            raise ValueError(code)

    def run(self):
        completed = self.loop.run_until_idle(self.sc[7], max_iterations=self.sc[8])
        for ctx in self.loop.errors:
            self.trace.append([self.now(), [2, 95]])
        self.loop.errors.clear()
        return completed

    def final(self):
        eps = []
        for o in self.eg.subscribed_endpoints:
            v6 = isinstance(o, H.IPv6EndpointOption)
            eps.append([int(v6), int(o.address) & (0xFFFF if v6 else 0xFFFFFF), o.port])
        return [sorted(eps), int(self.eg.has_clients.is_set())]

    def close(self):
        asyncio.events._set_running_loop(self.loop)
        try:
            for _ in range(20):
                pending = [t for t in asyncio.all_tasks(self.loop) if not t.done()]
                if not pending and not self.loop._ready:
                    break
                for t in pending:
                    t.cancel()
                for _ in range(5):
                    if self.loop._ready:
                        self.loop._run_once()
        except Exception:  # noqa: BLE001
            pass
        finally:
            asyncio.events._set_running_loop(None)
        self.loop.close()


def canon(tr):
    """Transmissions of one instant are ordered by destination (a Python set of endpoints iterates in hash order;
    per-destination order is kept: the sort is stable)."""
    out = []
    i = 0
    tr = [[t, list(e)] for t, e in tr]
    while i < len(tr):
        j = i
        while j < len(tr) and tr[j][0] == tr[i][0] and tr[j][1][0] == 0 and tr[i][1][0] == 0:
            j += 1
        if j == i:
            out.append(tr[i])
            i += 1
        else:
            out.extend(sorted(tr[i:j], key=lambda x: x[1][1]))
            i = j
    return out


def scenario_sexp(sc):
    svc, major, egid, interval, resolve, values, events, end, fuel = sc
    return [svc, major, egid, interval, resolve, [[ev, bytes(p)] for ev, p in values],
            [[t, sapi_sexp(c)] for t, c in events], end, fuel]


def sapi_sexp(c):
    if c[0] in (0, 1):
        return [c[0], c[1], [[bool(v6), n, port] for v6, n, port in c[2]]]
    if c[0] == 2:
        return [2, c[1], bytes(c[2])]
    return [3, list(c[1])]


def run_impl(sc):
    sim = ServiceSim(sc)
    try:
        completed = sim.run()
        return canon(sim.trace), completed, sim.final()
    finally:
        sim.close()


def run_model(ctx, scs):
    outs = ctx.model.batch([(3201, scenario_sexp(sc)) for sc in scs])
    res = []
    for o in outs:
        v = sexp.loads(o)
        if len(v) != 3 or v == [255, 255, 255]:
            raise RuntimeError("model rejected the scenario: " + o[:200])
        fin = v[2]
        res.append((canon(v[0]), bool(v[1]), [sorted([[int(bool(e[0])), e[1], e[2]] for e in fin[0]]), int(bool(fin[1]))]))
    return res
