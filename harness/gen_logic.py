#!/venv/bin/python
"""Translator (fail-closed) for the pure decision logic of pysomeip: reads the SOURCE TEXT of
  config.Service.matches_offer / matches_find / matches_subscribe / matches_service
  sd._SessionStorage.check_received / assign_outgoing
  sd.ServiceDiscoveryProtocol.sd_message_received (the per-entry dispatch), sd.ServiceDiscover.handle_offer / is_watching_service
  (control-flow SKELETONS: which component method is called, directly or through call_soon, under which condition)
  sd.ServiceInstance.handle_subscribe (skeleton with its boolean result: stop / refresh, then Ack or Nack)
  service.SimpleService.message_received (the chain of checks deciding the reply: which error, positive reply or silence)
with Python's ast module and emits theories/Generated/LogicGen.v: Gallina definitions gen_* that follow the Python
statement by statement.  Proofs/GenEquiv.v proves gen_* equal to the hand-written model functions, so a change of these
functions' logic breaks a proof obligation of C19 / C07 / C08 (a harmless rewrite may break it too).

Supported Python (anything else aborts the generation, exit 2):
  guard chains   : `if <cond>: raise ValueError(..)`, `if <cond>: return True|False`, final `return <expr>`
  expressions    : and / or / not, comparisons == != < <= > >= in, attributes of self / entry / other, int literals,
                   someip.header.SOMEIPSDEntryType.<member>
  check_received : k = (a, b); try: x, y = self.incoming[k]; <guard chain>  except KeyError: self.incoming[k] = (..); return <b>
                   finally: self.incoming[k] = (..)
  assign_outgoing: with self.outgoing_lock: x, y = self.outgoing[remote]; if <cond>: self.outgoing[remote] = (..) else: ...; return x, y
                   (+ the defaultdict default read from __init__)
  skeletons      : statements `if/elif/else`, `continue`, bare `return`, logging calls (ignored), `self.<component>.<method>(args)`,
                   `asyncio.get_event_loop().call_soon(self.<component>.<method>, args)`; callee and argument names must be in
                   the table SKEL_CALLS; conditions as above plus entry.ttl, `multicast`, `sdhdr.flag_unicast`,
                   `self.is_watching_service(entry)` (a boolean parameter of the generated skeleton)
Usage: gen_logic.py <out.v>
"""
import ast
import inspect
import os
import sys
import textwrap

sys.path.insert(0, os.environ.get("PYSOMEIP_SRC") or (os.environ.get("PYSOMEIP_REPO", "/repo") + "/src"))


class Abort(Exception):
    pass


SERVICE_ATTR = {"service_id": "s_sid", "instance_id": "s_iid", "major_version": "s_maj", "minor_version": "s_min"}
ENTRY_ATTR = {"ttl": "e_ttl {v}", "sd_type": "e_type {v}", "service_id": "e_sid {v}", "instance_id": "e_iid {v}", "major_version": "e_maj {v}",
              # properties of SOMEIPSDEntry (header.py): the raw field behind them, valid after the type guard that precedes every use
              "service_minor_version": "e_val {v}", "eventgroup_id": "N.land (e_val {v}) 65535"}


class Expr:
    def __init__(self, env):
        self.env = env  # python name -> ("service"|"entry"|"N"|"bool", coq term)

    def tr(self, n):
        if isinstance(n, ast.BoolOp):
            op = " && " if isinstance(n.op, ast.And) else " || "
            return "(" + op.join(self.tr(v) for v in n.values) + ")"
        if isinstance(n, ast.UnaryOp) and isinstance(n.op, ast.Not):
            return "(negb " + self.tr(n.operand) + ")"
        if isinstance(n, ast.Compare):
            if len(n.ops) != 1:
                raise Abort("chained comparison")
            a, b, op = n.left, n.comparators[0], n.ops[0]
            if isinstance(op, ast.In):
                if isinstance(b, ast.Attribute) and isinstance(b.value, ast.Name) and self.env.get(b.value.id, ("",))[0] == "service" and b.attr == "eventgroups":
                    return f"memN ({self.num(a)}) (s_egs {self.env[b.value.id][1]})"
                raise Abort("unsupported 'in' operand")
            x, y = self.num(a), self.num(b)
            return {ast.Eq: f"({x} =? {y})", ast.NotEq: f"negb ({x} =? {y})", ast.GtE: f"({y} <=? {x})", ast.Gt: f"({y} <? {x})",
                    ast.LtE: f"({x} <=? {y})", ast.Lt: f"({x} <? {y})"}.get(type(op)) or self.bad(op)
        if isinstance(n, ast.Constant) and isinstance(n.value, bool):
            return "true" if n.value else "false"
        if isinstance(n, ast.Name) and self.env.get(n.id, ("",))[0] == "bool":
            return self.env[n.id][1]
        if isinstance(n, ast.Attribute) and isinstance(n.value, ast.Name) and (n.value.id, n.attr) in self.env.get("__battr__", {}):
            return self.env["__battr__"][(n.value.id, n.attr)]
        if (isinstance(n, ast.Call) and isinstance(n.func, ast.Attribute) and getattr(n.func.value, "id", "") == "self"
                and n.func.attr in self.env.get("__bcall__", {}) and not n.keywords):
            args, term = self.env["__bcall__"][n.func.attr]
            if [getattr(a, "id", None) for a in n.args] != args:
                raise Abort("unexpected arguments of self." + n.func.attr)
            return term
        raise Abort("unsupported boolean expression: " + ast.dump(n)[:120])

    def bad(self, op):
        raise Abort("unsupported operator " + type(op).__name__)

    def num(self, n):
        if isinstance(n, ast.Constant) and isinstance(n.value, int) and not isinstance(n.value, bool):
            return str(n.value)
        if isinstance(n, ast.Name) and self.env.get(n.id, ("",))[0] == "N":
            return self.env[n.id][1]
        if isinstance(n, ast.BinOp) and isinstance(n.op, ast.Add):
            return f"({self.num(n.left)} + {self.num(n.right)})"
        if isinstance(n, ast.Attribute):
            # someip.header.SOMEIPSDEntryType.X
            if isinstance(n.value, ast.Attribute) and n.value.attr == "SOMEIPSDEntryType":
                return "ET_" + n.attr
            if isinstance(n.value, ast.Name) and n.value.id in self.env:
                kind, v = self.env[n.value.id]
                if kind == "service" and n.attr in SERVICE_ATTR:
                    return f"{SERVICE_ATTR[n.attr]} {v}"
                if kind == "entry" and n.attr in ENTRY_ATTR:
                    return ENTRY_ATTR[n.attr].format(v=v)
        raise Abort("unsupported numeric expression: " + ast.dump(n)[:120])


def body_of(fn):
    b = list(fn.body)
    if b and isinstance(b[0], ast.Expr) and isinstance(getattr(b[0], "value", None), ast.Constant) and isinstance(b[0].value.value, str):
        b = b[1:]
    return b


def guard_chain(stmts, ex, wrap_ok, allow_raise):
    """stmts -> nested if-then-else term"""
    if not stmts:
        raise Abort("function may fall off its end")
    st, rest = stmts[0], stmts[1:]
    if isinstance(st, ast.Return):
        if rest:
            raise Abort("code after return")
        return wrap_ok(ex.tr(st.value))
    if isinstance(st, ast.If) and not st.orelse and len(st.body) == 1:
        inner = st.body[0]
        if isinstance(inner, ast.Raise):
            if not allow_raise or not (isinstance(inner.exc, ast.Call) and getattr(inner.exc.func, "id", "") == "ValueError"):
                raise Abort("unsupported raise")
            then = "Err EValue"
        elif isinstance(inner, ast.Return):
            then = wrap_ok(ex.tr(inner.value))
        else:
            raise Abort("unsupported statement in if: " + type(inner).__name__)
        return f"if {ex.tr(st.test)} then {then} else\n  " + guard_chain(rest, ex, wrap_ok, allow_raise)
    raise Abort("unsupported statement: " + type(st).__name__)


def fn_ast(obj):
    src = textwrap.dedent(inspect.getsource(obj))
    t = ast.parse(src)
    f = t.body[0]
    if not isinstance(f, ast.FunctionDef):
        raise Abort("not a function")
    return f


def gen_matchers(cfg):
    out = []
    for name in ("matches_offer", "matches_find", "matches_subscribe"):
        f = fn_ast(getattr(cfg.Service, name))
        if [a.arg for a in f.args.args] != ["self", "entry"]:
            raise Abort(name + ": unexpected parameters")
        ex = Expr({"self": ("service", "s"), "entry": ("entry", "e")})
        term = guard_chain(body_of(f), ex, lambda t: f"Ok ({t})", True)
        out.append(f"Definition gen_{name} (s : service) (e : sdentry) : result bool :=\n  {term}.\n")
    f = fn_ast(cfg.Service.matches_service)
    if [a.arg for a in f.args.args] != ["self", "other"]:
        raise Abort("matches_service: unexpected parameters")
    ex = Expr({"self": ("service", "a"), "other": ("service", "b")})
    term = guard_chain(body_of(f), ex, lambda t: t, False)
    out.append(f"Definition gen_matches_service (a b : service) : bool :=\n  {term}.\n")
    return out


def tuple2(n):
    if isinstance(n, ast.Tuple) and len(n.elts) == 2:
        return n.elts
    raise Abort("expected a pair")


def is_store(st, table):
    """self.<table>[key] = (a, b) -> (key name, a, b)"""
    if isinstance(st, ast.Assign) and len(st.targets) == 1 and isinstance(st.targets[0], ast.Subscript):
        t = st.targets[0]
        if isinstance(t.value, ast.Attribute) and getattr(t.value.value, "id", "") == "self" and t.value.attr == table and isinstance(t.slice, ast.Name):
            a, b = tuple2(st.value)
            return t.slice.id, a, b
    return None


def is_load(st, table):
    """x, y = self.<table>[key] -> (x, y, key name)"""
    if isinstance(st, ast.Assign) and len(st.targets) == 1 and isinstance(st.targets[0], ast.Tuple) and isinstance(st.value, ast.Subscript):
        v = st.value
        if isinstance(v.value, ast.Attribute) and getattr(v.value.value, "id", "") == "self" and v.value.attr == table and isinstance(v.slice, ast.Name):
            x, y = st.targets[0].elts
            return x.id, y.id, v.slice.id
    return None


def gen_check_received(sd):
    f = fn_ast(sd._SessionStorage.check_received)
    if [a.arg for a in f.args.args] != ["self", "sender", "multicast", "flag", "session_id"]:
        raise Abort("check_received: unexpected parameters")
    b = body_of(f)
    if len(b) != 2 or not isinstance(b[0], ast.Assign) or not isinstance(b[1], ast.Try):
        raise Abort("check_received: expected 'k = ...' followed by try")
    kname = b[0].targets[0].id
    ka, kb = tuple2(b[0].value)
    if (ka.id, kb.id) != ("sender", "multicast"):
        raise Abort("check_received: key is not (sender, multicast)")
    tr = b[1]
    if len(tr.handlers) != 1 or getattr(tr.handlers[0].type, "id", "") != "KeyError" or tr.orelse:
        raise Abort("check_received: expected exactly 'except KeyError'")
    ld = is_load(tr.body[0], "incoming")
    if not ld or ld[2] != kname:
        raise Abort("check_received: try body must start with the lookup")
    env = {"flag": ("bool", "flag"), "session_id": ("N", "sid"), ld[0]: ("bool", "old_flag"), ld[1]: ("N", "old_sid")}
    ex = Expr(env)
    found = guard_chain(tr.body[1:], ex, lambda t: t, False)
    # except KeyError: store; return <const>
    hb = tr.handlers[0].body
    st = is_store(hb[0], "incoming") if hb else None
    if not st or st[0] != kname or len(hb) != 2 or not isinstance(hb[1], ast.Return):
        raise Abort("check_received: unsupported except body")

    def pair(a, b2):
        return f"({Expr(env).tr(a)}, {Expr(env).num(b2)})"
    exc_store = pair(st[1], st[2])
    exc_ret = ex.tr(hb[1].value)
    fb = tr.finalbody
    fs = is_store(fb[0], "incoming") if len(fb) == 1 else None
    if not fs or fs[0] != kname:
        raise Abort("check_received: unsupported finally body")
    fin_store = pair(fs[1], fs[2])
    return [
        "Definition gen_check_received (s : sess) (sender : addr) (mc flag : bool) (sid : N) : bool * sess :=\n"
        "  let k := (sender, mc) in\n"
        "  match aget in_key_eqb k (incoming s) with\n"
        "  | Some (old_flag, old_sid) =>\n"
        f"      (({found}),\n"
        f"       mkSess (aset in_key_eqb k {fin_store} (incoming s)) (outgoing s))\n"
        "  | None =>\n"
        f"      ({exc_ret},\n"
        f"       mkSess (aset in_key_eqb k {fin_store} (aset in_key_eqb k {exc_store} (incoming s))) (outgoing s))\n"
        "  end.\n"]


def gen_assign_outgoing(sd):
    # the default of the defaultdict
    init = fn_ast(sd._SessionStorage.__init__)
    dflt = None
    for n in ast.walk(init):
        if isinstance(n, ast.Call) and getattr(n.func, "attr", "") == "defaultdict" and n.args and isinstance(n.args[0], ast.Lambda):
            a, b = tuple2(n.args[0].body)
            dflt = (Expr({}).tr(a), Expr({}).num(b))
    if dflt is None:
        raise Abort("assign_outgoing: defaultdict default not found")
    f = fn_ast(sd._SessionStorage.assign_outgoing)
    if [a.arg for a in f.args.args] != ["self", "remote"]:
        raise Abort("assign_outgoing: unexpected parameters")
    b = body_of(f)
    if len(b) != 2 or not isinstance(b[0], ast.With) or not isinstance(b[1], ast.Return):
        raise Abort("assign_outgoing: expected 'with lock:' and return")
    wb = b[0].body
    ld = is_load(wb[0], "outgoing")
    if not ld or ld[2] != "remote" or len(wb) != 2 or not isinstance(wb[1], ast.If) or len(wb[1].body) != 1 or len(wb[1].orelse) != 1:
        raise Abort("assign_outgoing: unsupported with-body")
    env = {ld[0]: ("bool", "flag"), ld[1]: ("N", "id")}
    ex = Expr(env)
    s1, s2 = is_store(wb[1].body[0], "outgoing"), is_store(wb[1].orelse[0], "outgoing")
    if not s1 or not s2 or s1[0] != "remote" or s2[0] != "remote":
        raise Abort("assign_outgoing: unsupported stores")
    ra, rb = tuple2(b[1].value)
    if (ra.id, rb.id) != (ld[0], ld[1]):
        raise Abort("assign_outgoing: unexpected return value")
    return [
        "Definition gen_assign_outgoing (s : sess) (d : dest) : (bool * N) * sess :=\n"
        f"  let '(flag, id) := match aget dest_eqb d (outgoing s) with Some v => v | None => ({dflt[0]}, {dflt[1]}) end in\n"
        f"  let nxt := if {ex.tr(wb[1].test)} then ({ex.tr(s1[1])}, {ex.num(s1[2])}) else ({ex.tr(s2[1])}, {ex.num(s2[2])}) in\n"
        "  ((flag, id), mkSess (incoming s) (aset dest_eqb d nxt (outgoing s))).\n"]


# ---- control-flow skeletons ----
# callee (dotted path below self) -> (constructor of gfun, expected argument names)
SKEL_CALLS = {
    "discovery.handle_offer": ("F_discovery_handle_offer", ["entry", "addr"]),
    "announcer.handle_findservice": ("F_announcer_handle_findservice", ["entry", "addr", "multicast"]),
    "announcer.handle_subscribe": ("F_announcer_handle_subscribe", ["entry", "addr"]),
    "service_offer_stopped": ("F_service_offer_stopped", ["addr", "entry"]),
    "service_offered": ("F_service_offered", ["addr", "entry"]),
}


def dotted(n):
    parts = []
    while isinstance(n, ast.Attribute):
        parts.append(n.attr)
        n = n.value
    if isinstance(n, ast.Name):
        parts.append(n.id)
        return ".".join(reversed(parts))
    return None


def skel_call(call):
    """-> None for a logging call, else the Gallina action"""
    name = dotted(call.func)
    if name and (name.startswith("LOG.") or name.startswith("self.log.")):
        return None
    if call.keywords:
        raise Abort("keyword arguments in a skeleton call")
    soon = False
    args = list(call.args)
    if (isinstance(call.func, ast.Attribute) and call.func.attr == "call_soon" and isinstance(call.func.value, ast.Call)
            and dotted(call.func.value.func) == "asyncio.get_event_loop" and args):
        soon = True
        name, args = dotted(args[0]), args[1:]
    if not name or not name.startswith("self."):
        raise Abort("unsupported call in a skeleton: " + str(name))
    key = name[len("self."):]
    if key not in SKEL_CALLS:
        raise Abort("unknown callee in a skeleton: " + key)
    ctor, expect = SKEL_CALLS[key]
    if [getattr(a, "id", None) for a in args] != expect:
        raise Abort("unexpected arguments for " + key)
    return ("GSoon " if soon else "GCall ") + ctor


def skel(stmts, ex, loop=False):
    """statement list -> (Gallina term : list gact, every path ends the enclosing body); inside a loop body (loop=True) a
    bare `return` is not a `continue`: it abandons the remaining iterations (GStop)"""
    if not stmts:
        return "[]", False
    st, rest = stmts[0], stmts[1:]
    if isinstance(st, ast.Return) and st.value is None and loop:
        return "(GStop :: [])", True
    if isinstance(st, ast.Continue) or (isinstance(st, ast.Return) and st.value is None):
        return "[]", True
    if isinstance(st, ast.Expr) and isinstance(st.value, ast.Constant):
        return skel(rest, ex, loop)
    if isinstance(st, ast.Expr) and isinstance(st.value, ast.Call):
        act = skel_call(st.value)
        r, t = skel(rest, ex, loop)
        return (r if act is None else f"({act} :: {r})"), t
    if isinstance(st, ast.If):
        c = ex.tr(st.test)
        b, bt = skel(st.body, ex, loop)
        o, ot = skel(st.orelse, ex, loop)
        r, rt = skel(rest, ex, loop)
        then_t = b if bt else (r if b == "[]" else f"({b} ++ {r})")
        else_t = o if ot else (r if o == "[]" else f"({o} ++ {r})")
        return f"(if {c} then {then_t} else {else_t})", (bt or rt) and (ot or rt)
    raise Abort("unsupported statement in a skeleton: " + type(st).__name__)


def gen_skeletons(sd):
    out = []
    # ServiceDiscoveryProtocol.sd_message_received: [logging], if <reject>: [logging]; return, for entry in sdhdr.entries: <dispatch>
    f = fn_ast(sd.ServiceDiscoveryProtocol.sd_message_received)
    if [a.arg for a in f.args.args] != ["self", "sdhdr", "addr", "multicast"]:
        raise Abort("sd_message_received: unexpected parameters")
    b = [s for s in body_of(f) if not (isinstance(s, ast.Expr) and isinstance(s.value, ast.Call) and skel_call(s.value) is None)]
    if (len(b) != 2 or not isinstance(b[0], ast.If) or b[0].orelse or not isinstance(b[1], ast.For) or b[1].orelse
            or getattr(b[1].target, "id", "") != "entry" or dotted(b[1].iter) != "sdhdr.entries"):
        raise Abort("sd_message_received: expected a guard followed by 'for entry in sdhdr.entries'")
    ex = Expr({"entry": ("entry", "e"), "multicast": ("bool", "mc"), "__battr__": {("sdhdr", "flag_unicast"): "unicast"}})
    g, gt = skel(b[0].body, ex)
    if g != "[]" or not gt:
        raise Abort("sd_message_received: the guard must only log and return")
    out.append(f"Definition gen_sd_accept (unicast : bool) : bool :=\n  negb {ex.tr(b[0].test)}.\n")
    d, _ = skel(b[1].body, ex, loop=True)
    out.append(f"Definition gen_dispatch_entry (e : sdentry) (mc : bool) : list gact :=\n  {d}.\n")
    # ServiceDiscover.handle_offer
    f = fn_ast(sd.ServiceDiscover.handle_offer)
    if [a.arg for a in f.args.args] != ["self", "entry", "addr"]:
        raise Abort("handle_offer: unexpected parameters")
    ex = Expr({"entry": ("entry", "e"), "__bcall__": {"is_watching_service": (["entry"], "watching")}})
    d, _ = skel(body_of(f), ex)
    out.append(f"Definition gen_handle_offer (e : sdentry) (watching : bool) : list gact :=\n  {d}.\n")
    # ServiceDiscover.is_watching_service: if self.watcher_all_services: return True; return any(s.matches_offer(entry) for s in self.watched_services.keys())
    f = fn_ast(sd.ServiceDiscover.is_watching_service)
    b = body_of(f)
    ok = (len(b) == 2 and isinstance(b[0], ast.If) and not b[0].orelse and dotted(b[0].test) == "self.watcher_all_services"
          and len(b[0].body) == 1 and isinstance(b[0].body[0], ast.Return) and getattr(b[0].body[0].value, "value", None) is True
          and isinstance(b[1], ast.Return) and isinstance(b[1].value, ast.Call) and getattr(b[1].value.func, "id", "") == "any"
          and len(b[1].value.args) == 1 and isinstance(b[1].value.args[0], ast.GeneratorExp))
    if ok:
        ge = b[1].value.args[0]
        c = ge.generators
        ok = (len(c) == 1 and not c[0].ifs and getattr(c[0].target, "id", "") == "s" and isinstance(c[0].iter, ast.Call)
              and dotted(c[0].iter.func) == "self.watched_services.keys" and isinstance(ge.elt, ast.Call)
              and dotted(ge.elt.func) == "s.matches_offer" and [getattr(a, "id", None) for a in ge.elt.args] == ["entry"])
    if not ok:
        raise Abort("is_watching_service: unexpected shape")
    out.append("Definition gen_is_watching (all_nonempty any_filter_matches : bool) : bool :=\n"
               "  if all_nonempty then true else any_filter_matches.\n")
    return out


# ---- sd.py: ServiceInstance.handle_subscribe (skeleton with a result) ----
def call_key(call):
    """(dotted callee below self, argument spellings) of self.<...>(...)"""
    name = dotted(call.func)
    if not name or not name.startswith("self."):
        raise Abort("unsupported call: " + str(name))
    def spell(a):
        if isinstance(a, ast.Call) and not a.args and not a.keywords:
            return (dotted(a.func) or "?") + "()"
        return dotted(a) or "?"
    return name[len("self."):], [spell(a) for a in call.args] + [f"{k.arg}={spell(k.value)}" for k in call.keywords]


RET_CALLS = {
    "eventgroup_subscribe_stopped": ("F_subscribe_stopped", ["addr", "subscription"]),
    "subscriptions.refresh": ("F_subscriptions_refresh", ["subscription.ttl", "addr", "subscription", "self.listener.client_subscribed", "self.listener.client_unsubscribed"]),
    "announcer._send_subscribe_nack": ("F_send_nack", ["subscription", "addr"]),
    "announcer.queue_send": ("F_queue_ack", ["subscription.to_ack_entry()", "remote=addr"]),
}


def ret_act(st):
    if not (isinstance(st, ast.Expr) and isinstance(st.value, ast.Call)):
        raise Abort("handle_subscribe: expected a call, got " + type(st).__name__)
    key, args = call_key(st.value)
    if key not in RET_CALLS or RET_CALLS[key][1] != args:
        raise Abort("handle_subscribe: unknown call or arguments: " + key + str(args))
    return "GCall " + RET_CALLS[key][0]


def ends(stmts):
    return bool(stmts) and isinstance(stmts[-1], ast.Return)


def skel_ret(stmts, cond):
    """statement list in which every path returns a bool constant -> Gallina term : list gact * bool"""
    if not stmts:
        raise Abort("handle_subscribe: a path falls off the end")
    st, rest = stmts[0], stmts[1:]
    if isinstance(st, ast.Return):
        if not (isinstance(st.value, ast.Constant) and isinstance(st.value.value, bool)):
            raise Abort("handle_subscribe: return of a non-constant")
        return "([], %s)" % ("true" if st.value.value else "false")
    if isinstance(st, ast.Assign) and getattr(st.targets[0], "id", "") == "subscription" and isinstance(st.value, ast.Call) \
            and dotted(st.value.func) == "EventgroupSubscription.from_subscribe_entry" and [getattr(a, "id", None) for a in st.value.args] == ["entry"]:
        return skel_ret(rest, cond)
    if isinstance(st, ast.If):
        then_b = st.body if ends(st.body) else st.body + rest
        else_b = (st.orelse if ends(st.orelse) else st.orelse + rest)
        return f"(if {cond(st.test)} then {skel_ret(then_b, cond)} else {skel_ret(else_b, cond)})"
    if isinstance(st, ast.Try):
        if len(st.body) != 1 or len(st.handlers) != 1 or getattr(st.handlers[0].type, "id", "") != "NakSubscription" or st.finalbody:
            raise Abort("handle_subscribe: unexpected try")
        ok_b = st.orelse if ends(st.orelse) else st.orelse + rest
        no_b = st.handlers[0].body if ends(st.handlers[0].body) else st.handlers[0].body + rest
        return f"(gprep ({ret_act(st.body[0])}) (if accepted then {skel_ret(ok_b, cond)} else {skel_ret(no_b, cond)}))"
    if isinstance(st, ast.Expr):
        return f"(gprep ({ret_act(st)}) {skel_ret(rest, cond)})"
    raise Abort("handle_subscribe: unsupported statement " + type(st).__name__)


def gen_inst_subscribe(sd):
    f = fn_ast(sd.ServiceInstance.handle_subscribe)
    if [a.arg for a in f.args.args] != ["self", "entry", "addr"]:
        raise Abort("ServiceInstance.handle_subscribe: unexpected parameters")
    ex = Expr({"entry": ("entry", "e")})

    def cond(n):
        if isinstance(n, ast.Compare) and len(n.ops) == 1 and isinstance(n.ops[0], ast.Is) and dotted(n.left) == "self._task" \
                and isinstance(n.comparators[0], ast.Constant) and n.comparators[0].value is None:
            return "task_none"
        if isinstance(n, ast.UnaryOp) and isinstance(n.op, ast.Not) and isinstance(n.operand, ast.Call) \
                and dotted(n.operand.func) == "self.service.matches_subscribe" and [getattr(a, "id", None) for a in n.operand.args] == ["entry"]:
            return "(negb matches)"
        return ex.tr(n)
    body = [s for s in body_of(f) if not is_noise(s)]
    return ["Definition gen_inst_handle_subscribe (task_none matches : bool) (e : sdentry) (accepted : bool) : list gact * bool :=\n  "
            + skel_ret(body, cond) + ".\n"]


# ---- sd.py: ServiceSubscriber (what a subscribe / stop-subscribe call records and defers; C14) ----
def is_pair_arg(call, method):
    """self.subscribeentries.<method>((eventgroup, endpoint))"""
    return (dotted(call.func) == "self.subscribeentries." + method and not call.keywords and len(call.args) == 1
            and isinstance(call.args[0], ast.Tuple) and [getattr(e, "id", None) for e in call.args[0].elts] == ["eventgroup", "endpoint"])


def soon_one(call):
    """asyncio.get_event_loop().call_soon(self._send_{start,stop}_subscribe, endpoint, [eventgroup]) -> constructor"""
    if not (isinstance(call.func, ast.Attribute) and call.func.attr == "call_soon" and isinstance(call.func.value, ast.Call)
            and dotted(call.func.value.func) == "asyncio.get_event_loop" and not call.func.value.args and not call.keywords and len(call.args) == 3):
        return None
    f, a, l = call.args
    if getattr(a, "id", None) != "endpoint" or not (isinstance(l, ast.List) and [getattr(e, "id", None) for e in l.elts] == ["eventgroup"]):
        return None
    return {"self._send_start_subscribe": "SSoonStart", "self._send_stop_subscribe": "SSoonStop"}.get(dotted(f))


def sub_stmts(stmts):
    """statement list of subscribe_eventgroup / stop_subscribe_eventgroup -> Gallina term : list sact"""
    if not stmts:
        return "[]"
    st, rest = stmts[0], stmts[1:]
    if isinstance(st, ast.Expr) and isinstance(st.value, ast.Call):
        if is_pair_arg(st.value, "append"):
            return f"(SAppend :: {sub_stmts(rest)})"
        c = soon_one(st.value)
        if c:
            return f"({c} :: {sub_stmts(rest)})"
        raise Abort("subscriber: unsupported call " + str(dotted(st.value.func)))
    if isinstance(st, ast.Try):
        ok = (len(st.body) == 1 and isinstance(st.body[0], ast.Expr) and isinstance(st.body[0].value, ast.Call) and is_pair_arg(st.body[0].value, "remove")
              and len(st.handlers) == 1 and getattr(st.handlers[0].type, "id", "") == "ValueError" and len(st.handlers[0].body) == 1
              and isinstance(st.handlers[0].body[0], ast.Return) and st.handlers[0].body[0].value is None and not st.orelse and not st.finalbody)
        if not ok:
            raise Abort("subscriber: unexpected try")
        return f"(if found then (SRemove :: {sub_stmts(rest)}) else [])"
    if isinstance(st, ast.If) and not st.orelse:
        name = dotted(st.test)
        if name == "self.alive":
            c = "alive"
        elif name == "send":
            c = "send"
        else:
            raise Abort("subscriber: unsupported condition")
        return f"(if {c} then ({sub_stmts(st.body)} ++ {sub_stmts(rest)}) else {sub_stmts(rest)})"
    raise Abort("subscriber: unsupported statement " + type(st).__name__)


def gen_subscriber(sd):
    out = []
    S = sd.ServiceSubscriber
    f = fn_ast(S.subscribe_eventgroup)
    if [a.arg for a in f.args.args] != ["self", "eventgroup", "endpoint"]:
        raise Abort("subscribe_eventgroup: unexpected parameters")
    out.append(f"Definition gen_sub_subscribe (alive : bool) : list sact :=\n  {sub_stmts(body_of(f))}.\n")
    f = fn_ast(S.stop_subscribe_eventgroup)
    if [a.arg for a in f.args.args] != ["self", "eventgroup", "endpoint", "send"]:
        raise Abort("stop_subscribe_eventgroup: unexpected parameters")
    out.append(f"Definition gen_sub_stop_subscribe (found send : bool) : list sact :=\n  {sub_stmts(body_of(f))}.\n")
    # _send_start_subscribe / _send_stop_subscribe: self._send_subscribe(<ttl>, remote, entries)
    for name, gname in (("_send_start_subscribe", "gen_sub_start_ttl"), ("_send_stop_subscribe", "gen_sub_stop_ttl")):
        f = fn_ast(getattr(S, name))
        b = body_of(f)
        if ([a.arg for a in f.args.args] != ["self", "remote", "entries"] or len(b) != 1 or not isinstance(b[0], ast.Expr) or not isinstance(b[0].value, ast.Call)
                or dotted(b[0].value.func) != "self._send_subscribe" or b[0].value.keywords or len(b[0].value.args) != 3
                or [getattr(a, "id", None) for a in b[0].value.args[1:]] != ["remote", "entries"]):
            raise Abort(name + ": unexpected shape")
        t = b[0].value.args[0]
        if isinstance(t, ast.Constant) and isinstance(t.value, int) and not isinstance(t.value, bool):
            term = str(t.value)
        elif dotted(t) == "self.timings.SUBSCRIBE_TTL":
            term = "subscribe_ttl"
        else:
            raise Abort(name + ": unexpected TTL argument")
        out.append(f"Definition {gname} (subscribe_ttl : N) : N := {term}.\n")
    # _send_subscribe: self.sd.send_sd([e.create_subscribe_entry(ttl=ttl) for e in entries], remote=remote)
    f = fn_ast(S._send_subscribe)
    b = body_of(f)
    ok = ([a.arg for a in f.args.args] == ["self", "ttl", "remote", "entries"] and len(b) == 1 and isinstance(b[0], ast.Expr) and isinstance(b[0].value, ast.Call))
    if ok:
        c = b[0].value
        ok = (dotted(c.func) == "self.sd.send_sd" and len(c.args) == 1 and isinstance(c.args[0], ast.ListComp) and len(c.keywords) == 1
              and c.keywords[0].arg == "remote" and getattr(c.keywords[0].value, "id", None) == "remote")
    if ok:
        lc = c.args[0]
        g = lc.generators
        ok = (len(g) == 1 and not g[0].ifs and getattr(g[0].target, "id", "") == "e" and getattr(g[0].iter, "id", "") == "entries"
              and isinstance(lc.elt, ast.Call) and dotted(lc.elt.func) == "e.create_subscribe_entry" and not lc.elt.args
              and len(lc.elt.keywords) == 1 and lc.elt.keywords[0].arg == "ttl" and getattr(lc.elt.keywords[0].value, "id", None) == "ttl")
    if not ok:
        raise Abort("_send_subscribe: unexpected shape")
    out.append("Definition gen_sub_entries {G E : Type} (create_subscribe_entry : G -> N -> E) (ttl : N) (entries : list G) : list E :=\n"
               "  map (fun e => create_subscribe_entry e ttl) entries.\n")
    return out


# ---- sd.py: TimedStore (refresh / stop / _expired / stop_all_for_address; C05, C06, C09) ----
def ts_pop(st):
    """(callback-or-_, handle-name) = self.store[address].pop(entry)  ->  name of the handle variable"""
    if not (isinstance(st, ast.Assign) and len(st.targets) == 1 and isinstance(st.targets[0], ast.Tuple) and len(st.targets[0].elts) == 2
            and isinstance(st.value, ast.Call) and dotted(st.value.func) is None):
        pass
    if not (isinstance(st, ast.Assign) and len(st.targets) == 1 and isinstance(st.targets[0], ast.Tuple) and len(st.targets[0].elts) == 2 and isinstance(st.value, ast.Call)):
        return None
    f = st.value.func
    ok = (isinstance(f, ast.Attribute) and f.attr == "pop" and isinstance(f.value, ast.Subscript) and dotted(f.value.value) == "self.store"
          and getattr(f.value.slice, "id", None) == "address" and [getattr(a, "id", None) for a in st.value.args] == ["entry"] and not st.value.keywords)
    return getattr(st.targets[0].elts[1], "id", None) if ok else None


def ts_stmts(stmts, handles, cb_names):
    """statement list of a TimedStore method -> Gallina term : list tact"""
    if not stmts:
        return "[]"
    st, rest = stmts[0], stmts[1:]
    if is_noise(st):
        return ts_stmts(rest, handles, cb_names)
    if isinstance(st, ast.Return) and st.value is None:
        return "[]"
    if isinstance(st, ast.Try):
        h = ts_pop(st.body[0]) if st.body else None
        if h is None or len(st.handlers) != 1 or getattr(st.handlers[0].type, "id", "") != "KeyError" or st.orelse or st.finalbody:
            raise Abort("TimedStore: unexpected try")
        handles = handles | {h}
        hb = [s for s in st.handlers[0].body if not is_noise(s)]
        body_t = ts_stmts(st.body[1:], handles, cb_names)
        if hb and isinstance(hb[-1], ast.Return) and hb[-1].value is None:
            return f"(if found then (TPop :: ({body_t} ++ {ts_stmts(rest, handles, cb_names)})) else {ts_stmts(hb, handles, cb_names)})"
        return f"((if found then (TPop :: {body_t}) else {ts_stmts(hb, handles, cb_names)}) ++ {ts_stmts(rest, handles, cb_names)})"
    if isinstance(st, ast.If) and not st.orelse and getattr(st.test, "id", None) in handles:
        return f"((if timer then {ts_stmts(st.body, handles, cb_names)} else []) ++ {ts_stmts(rest, handles, cb_names)})"
    if isinstance(st, ast.If) and not st.orelse and isinstance(st.test, ast.Compare) and len(st.test.ops) == 1 and isinstance(st.test.ops[0], ast.NotEq) \
            and getattr(st.test.left, "id", None) == "ttl" and getattr(st.test.comparators[0], "id", None) == "TTL_FOREVER":
        b = st.body
        ok = (len(b) == 1 and isinstance(b[0], ast.Assign) and getattr(b[0].targets[0], "id", None) == "timeout_handle" and isinstance(b[0].value, ast.Call)
              and isinstance(b[0].value.func, ast.Attribute) and b[0].value.func.attr == "call_later" and isinstance(b[0].value.func.value, ast.Call)
              and dotted(b[0].value.func.value.func) == "asyncio.get_event_loop" and not b[0].value.keywords and len(b[0].value.args) == 4
              and getattr(b[0].value.args[0], "id", None) == "ttl" and dotted(b[0].value.args[1]) == "self._expired"
              and [getattr(a, "id", None) for a in b[0].value.args[2:]] == ["address", "entry"])
        if not ok:
            raise Abort("TimedStore.refresh: unexpected timer arming")
        return f"((if negb forever then (TArm :: []) else []) ++ {ts_stmts(rest, handles, cb_names)})"
    if isinstance(st, ast.Assign) and getattr(st.targets[0], "id", None) == "timeout_handle" and isinstance(st.value, ast.Constant) and st.value.value is None:
        return ts_stmts(rest, handles, cb_names)
    if isinstance(st, ast.Assign) and isinstance(st.targets[0], ast.Subscript):
        t = st.targets[0]
        ok = (isinstance(t.value, ast.Subscript) and dotted(t.value.value) == "self.store" and getattr(t.value.slice, "id", None) == "address"
              and getattr(t.slice, "id", None) == "entry" and isinstance(st.value, ast.Tuple)
              and [getattr(e, "id", None) for e in st.value.elts] == ["callback_expired", "timeout_handle"])
        if not ok:
            raise Abort("TimedStore: unexpected store assignment")
        return f"(TStore :: {ts_stmts(rest, handles, cb_names)})"
    if isinstance(st, ast.Expr) and isinstance(st.value, ast.Call):
        c = st.value
        if isinstance(c.func, ast.Attribute) and c.func.attr == "cancel" and getattr(c.func.value, "id", None) in handles and not c.args and not c.keywords:
            return f"(TCancel :: {ts_stmts(rest, handles, cb_names)})"
        if getattr(c.func, "id", None) in cb_names and [getattr(a, "id", None) for a in c.args] == ["entry", "address"] and not c.keywords:
            return f"({cb_names[c.func.id]} :: {ts_stmts(rest, handles, cb_names)})"
        raise Abort("TimedStore: unsupported call")
    raise Abort("TimedStore: unsupported statement " + type(st).__name__)


def gen_timed_store(sd):
    out = []
    TS = sd.TimedStore
    f = fn_ast(TS.refresh)
    if [a.arg for a in f.args.args] != ["self", "ttl", "address", "entry", "callback_new", "callback_expired"]:
        raise Abort("TimedStore.refresh: unexpected parameters")
    out.append(f"Definition gen_ts_refresh (found timer forever : bool) : list tact :=\n  {ts_stmts(body_of(f), set(), {'callback_new': 'TCallNew'})}.\n")
    f = fn_ast(TS.stop)
    if [a.arg for a in f.args.args] != ["self", "address", "entry"]:
        raise Abort("TimedStore.stop: unexpected parameters")
    out.append(f"Definition gen_ts_stop (found timer : bool) : list tact :=\n  {ts_stmts(body_of(f), set(), {'callback': 'TCallback'})}.\n")
    f = fn_ast(TS._expired)
    if [a.arg for a in f.args.args] != ["self", "address", "entry"]:
        raise Abort("TimedStore._expired: unexpected parameters")
    out.append(f"Definition gen_ts_expired (found timer : bool) : list tact :=\n  {ts_stmts(body_of(f), set(), {'callback': 'TCallback'})}.\n")
    # stop_all_for_address: entries = list(self.store[address].items()); self.store[address].clear(); for entry, (callback, handle) in entries: <body>
    f = fn_ast(TS.stop_all_for_address)
    b = [s for s in body_of(f) if not is_noise(s)]
    ok = ([a.arg for a in f.args.args] == ["self", "address"] and len(b) == 3 and isinstance(b[0], ast.Assign) and getattr(b[0].targets[0], "id", None) == "entries"
          and isinstance(b[0].value, ast.Call) and getattr(b[0].value.func, "id", None) == "list" and len(b[0].value.args) == 1
          and isinstance(b[0].value.args[0], ast.Call) and isinstance(b[0].value.args[0].func, ast.Attribute) and b[0].value.args[0].func.attr == "items"
          and isinstance(b[0].value.args[0].func.value, ast.Subscript) and dotted(b[0].value.args[0].func.value.value) == "self.store"
          and isinstance(b[1], ast.Expr) and isinstance(b[1].value, ast.Call) and isinstance(b[1].value.func, ast.Attribute) and b[1].value.func.attr == "clear"
          and isinstance(b[1].value.func.value, ast.Subscript) and dotted(b[1].value.func.value.value) == "self.store"
          and isinstance(b[2], ast.For) and not b[2].orelse and getattr(b[2].iter, "id", None) == "entries" and isinstance(b[2].target, ast.Tuple)
          and getattr(b[2].target.elts[0], "id", None) == "entry" and isinstance(b[2].target.elts[1], ast.Tuple)
          and [getattr(e, "id", None) for e in b[2].target.elts[1].elts] == ["callback", "handle"])
    if not ok:
        raise Abort("TimedStore.stop_all_for_address: expected snapshot, clear, loop")
    out.append(f"Definition gen_ts_stop_all_each (timer : bool) : list tact :=\n  {ts_stmts(b[2].body, {'handle'}, {'callback': 'TCallback'})}.\n")
    return out


# ---- sd.py: ServiceAnnouncer.queue_send (C15) ----
def gen_queue_send(sd):
    f = fn_ast(sd.ServiceAnnouncer.queue_send)
    if [a.arg for a in f.args.args] != ["self", "entry", "remote"]:
        raise Abort("queue_send: unexpected parameters")
    b = [s for s in body_of(f) if not is_noise(s)]
    if len(b) != 4:
        raise Abort("queue_send: expected four statements")
    s0, s1, s2, s3 = b
    # if self.timings.SEND_COLLECTION_TIMEOUT == 0: self.sd.send_sd([entry], remote=remote); return
    ok = (isinstance(s0, ast.If) and not s0.orelse and isinstance(s0.test, ast.Compare) and len(s0.test.ops) == 1 and isinstance(s0.test.ops[0], ast.Eq)
          and dotted(s0.test.left) == "self.timings.SEND_COLLECTION_TIMEOUT" and isinstance(s0.test.comparators[0], ast.Constant) and s0.test.comparators[0].value == 0
          and len(s0.body) == 2 and isinstance(s0.body[1], ast.Return) and s0.body[1].value is None and isinstance(s0.body[0], ast.Expr) and isinstance(s0.body[0].value, ast.Call))
    if ok:
        c = s0.body[0].value
        ok = (dotted(c.func) == "self.sd.send_sd" and len(c.args) == 1 and isinstance(c.args[0], ast.List) and [getattr(e, "id", None) for e in c.args[0].elts] == ["entry"]
              and len(c.keywords) == 1 and c.keywords[0].arg == "remote" and getattr(c.keywords[0].value, "id", None) == "remote")
    if not ok:
        raise Abort("queue_send: unexpected zero-timeout bypass")
    # queue = self.send_queues.get(remote)
    ok = (isinstance(s1, ast.Assign) and getattr(s1.targets[0], "id", None) == "queue" and isinstance(s1.value, ast.Call) and dotted(s1.value.func) == "self.send_queues.get"
          and [getattr(a, "id", None) for a in s1.value.args] == ["remote"] and not s1.value.keywords)
    if not ok:
        raise Abort("queue_send: the collector must be looked up under the destination as given")
    # if queue is None or queue.done: self.send_queues[remote] = queue = SendCollector(self.timings.SEND_COLLECTION_TIMEOUT, self.sd.send_sd, remote=remote)
    t = s2.test if isinstance(s2, ast.If) else None
    ok = (t is not None and not s2.orelse and isinstance(t, ast.BoolOp) and isinstance(t.op, ast.Or) and len(t.values) == 2
          and isinstance(t.values[0], ast.Compare) and getattr(t.values[0].left, "id", None) == "queue" and isinstance(t.values[0].ops[0], ast.Is)
          and isinstance(t.values[0].comparators[0], ast.Constant) and t.values[0].comparators[0].value is None and dotted(t.values[1]) == "queue.done"
          and len(s2.body) == 1 and isinstance(s2.body[0], ast.Assign) and len(s2.body[0].targets) == 2 and isinstance(s2.body[0].value, ast.Call))
    if ok:
        a = s2.body[0]
        tg = a.targets
        c = a.value
        ok = (isinstance(tg[0], ast.Subscript) and dotted(tg[0].value) == "self.send_queues" and getattr(tg[0].slice, "id", None) == "remote" and getattr(tg[1], "id", None) == "queue"
              and getattr(c.func, "id", None) == "SendCollector" and len(c.args) == 2 and dotted(c.args[0]) == "self.timings.SEND_COLLECTION_TIMEOUT"
              and dotted(c.args[1]) == "self.sd.send_sd" and len(c.keywords) == 1 and c.keywords[0].arg == "remote" and getattr(c.keywords[0].value, "id", None) == "remote")
    if not ok:
        raise Abort("queue_send: unexpected collector creation")
    # queue.append(entry)
    ok = (isinstance(s3, ast.Expr) and isinstance(s3.value, ast.Call) and dotted(s3.value.func) == "queue.append" and [getattr(a, "id", None) for a in s3.value.args] == ["entry"])
    if not ok:
        raise Abort("queue_send: unexpected last statement")
    return ["Definition gen_queue_send (timeout_zero open_collector : bool) : list qact :=\n"
            "  if timeout_zero then (QSendNow :: []) else ((if negb open_collector then (QNewCollector :: []) else []) ++ (QAppend :: [])).\n"]


# ---- sd.py: ServiceAnnouncer.handle_findservice, ServiceInstance.matches_find / _answer_find (C12) ----
def src_norm(node):
    return ast.dump(node, annotate_fields=False, include_attributes=False).replace("Store()", "Load()").replace("Del()", "Load()")


def expect_src(node, text, what):
    """the statement must be exactly this source text (compared as syntax trees)"""
    want = ast.parse(textwrap.dedent(text)).body[0]
    if src_norm(node) != src_norm(want):
        raise Abort(what + ": unexpected shape")


def gen_find_answer(sd):
    out = []
    f = fn_ast(sd.ServiceAnnouncer.handle_findservice)
    if [a.arg for a in f.args.args] != ["self", "entry", "addr", "received_over_multicast"]:
        raise Abort("handle_findservice: unexpected parameters")
    b = [s for s in body_of(f) if not is_noise(s)]
    if len(b) != 5:
        raise Abort("handle_findservice: expected five statements")
    expect_src(b[0], "matching_instances = []", "handle_findservice (1)")
    expect_src(b[1], """
        for instance in self.announcing_services:
            if instance.matches_find(entry, addr):
                matching_instances.append(instance)
        """, "handle_findservice (2)")
    expect_src(b[2], """
        if not matching_instances:
            return
        """, "handle_findservice (3)")
    expect_src(b[3], """
        if received_over_multicast:
            delay = random.uniform(
                self.timings.REQUEST_RESPONSE_DELAY_MIN,
                self.timings.REQUEST_RESPONSE_DELAY_MAX,
            )

            def call(func) -> None:
                asyncio.get_event_loop().call_later(delay, func, addr)

        else:

            def call(func) -> None:
                asyncio.get_event_loop().call_soon(func, addr)
        """, "handle_findservice (4)")
    expect_src(b[4], """
        for instance in matching_instances:
            call(instance._answer_find)
        """, "handle_findservice (5)")
    out.append("Definition gen_handle_find (any_match multicast : bool) : list fact :=\n"
               "  if negb any_match then [] else if multicast then (FDraw :: FLaterEach :: []) else (FSoonEach :: []).\n")
    # ServiceInstance.matches_find: not ready -> False, else the service's wildcard rules
    f = fn_ast(sd.ServiceInstance.matches_find)
    b = [s for s in body_of(f) if not is_noise(s)]
    if [a.arg for a in f.args.args] != ["self", "entry", "addr"] or len(b) != 2 or not isinstance(b[0], ast.If) or b[0].orelse:
        raise Abort("ServiceInstance.matches_find: unexpected shape")
    guard = [s for s in b[0].body if not is_noise(s)]
    expect_src(ast.If(test=b[0].test, body=guard, orelse=[]), """
        if not self._can_answer_offers:
            return False
        """, "ServiceInstance.matches_find (1)")
    expect_src(b[1], "return self.service.matches_find(entry)", "ServiceInstance.matches_find (2)")
    out.append("Definition gen_inst_matches_find (can_answer service_matches : bool) : bool :=\n"
               "  if negb can_answer then false else service_matches.\n")
    # ServiceInstance._answer_find: ready WHEN THE ANSWER FIRES
    f = fn_ast(sd.ServiceInstance._answer_find)
    b = [s for s in body_of(f) if not is_noise(s)]
    if [a.arg for a in f.args.args] != ["self", "remote"] or len(b) != 1:
        raise Abort("_answer_find: unexpected shape")
    expect_src(b[0], """
        if self._can_answer_offers:
            self._send_offer(remote)
        """, "_answer_find")
    out.append("Definition gen_answer_find (can_answer : bool) : list fact :=\n  if can_answer then (FSendOffer :: []) else [].\n")
    return out


# ---- sd.py: ServiceDiscoveryProtocol.message_received / reboot_detected / connection_lost (C03, C07, C06) ----
def gen_protocol_entry(sd):
    out = []
    P = sd.ServiceDiscoveryProtocol
    f = fn_ast(P.message_received)
    if [a.arg for a in f.args.args] != ["self", "someip_message", "addr", "multicast"]:
        raise Abort("message_received: unexpected parameters")
    b = [s for s in body_of(f) if not is_noise(s)]
    if len(b) == 6 and isinstance(b[5], ast.If) and dotted(b[5].test) == "rest" and all(is_noise(s) for s in b[5].body) and not b[5].orelse:
        b = b[:5]          # "if rest: log"
    if len(b) != 5:
        raise Abort("message_received: expected five statements")
    g = b[0]
    if not (isinstance(g, ast.If) and not g.orelse and [s for s in g.body if not is_noise(s)] and isinstance([s for s in g.body if not is_noise(s)][0], ast.Return)):
        raise Abort("message_received: expected the non-SD guard")
    expect_src(ast.Expr(g.test), """
        (someip_message.service_id != someip.header.SD_SERVICE
         or someip_message.method_id != someip.header.SD_METHOD
         or someip_message.interface_version != someip.header.SD_INTERFACE_VERSION
         or someip_message.return_code != someip.header.SOMEIPReturnCode.E_OK
         or someip_message.message_type != someip.header.SOMEIPMessageType.NOTIFICATION)
        """, "message_received (guard)")
    t = b[1]
    ok = (isinstance(t, ast.Try) and len(t.body) == 1 and len(t.handlers) == 1 and not t.orelse and not t.finalbody
          and [s for s in t.handlers[0].body if not is_noise(s)] and isinstance([s for s in t.handlers[0].body if not is_noise(s)][0], ast.Return))
    if not ok:
        raise Abort("message_received: expected try: parse / except: return")
    expect_src(t.body[0], "sdhdr, rest = someip.header.SOMEIPSDHeader.parse(someip_message.payload)", "message_received (parse)")
    expect_src(ast.Expr(t.handlers[0].type), "(someip.header.ParseError, UnicodeDecodeError)", "message_received (except)")
    expect_src(b[2], """
        if self.session_storage.check_received(addr, multicast, sdhdr.flag_reboot, someip_message.session_id):
            self.reboot_detected(addr)
        """, "message_received (session)")
    expect_src(b[3], "sdhdr_resolved = sdhdr.resolve_options()", "message_received (resolve)")
    expect_src(b[4], "self.sd_message_received(sdhdr_resolved, addr, multicast)", "message_received (dispatch)")
    out.append("Definition gen_message_received (is_sd parses reboot : bool) : list mact :=\n"
               "  if negb is_sd then [] else if negb parses then [] else\n"
               "  (MSession :: (if reboot then (MReboot :: []) else [])) ++ (MResolveDispatch :: []).\n")
    f = fn_ast(P.reboot_detected)
    b = [s for s in body_of(f) if not is_noise(s)]
    if [a.arg for a in f.args.args] != ["self", "addr"] or len(b) != 3:
        raise Abort("reboot_detected: unexpected shape")
    expect_src(b[0], "self.announcer.reboot_detected(addr)", "reboot_detected (1)")
    expect_src(b[1], "asyncio.get_event_loop().call_soon(self.subscriber.reboot_detected, addr)", "reboot_detected (2)")
    expect_src(b[2], "asyncio.get_event_loop().call_soon(self.discovery.reboot_detected, addr)", "reboot_detected (3)")
    # ServiceSubscriber.reboot_detected does nothing: the model queues no handle for it
    f2 = fn_ast(sd.ServiceSubscriber.reboot_detected)
    b2 = [s for s in body_of(f2) if not is_noise(s)]
    if not (len(b2) == 1 and isinstance(b2[0], ast.Pass)):
        raise Abort("ServiceSubscriber.reboot_detected is expected to do nothing")
    out.append("Definition gen_reboot_detected : list ract := RAnnouncerNow :: RSoonSubscriberNoop :: RSoonDiscovery :: [].\n")
    f = fn_ast(P.connection_lost)
    b = [s for s in body_of(f) if not is_noise(s)]
    b = [s for s in b if not (isinstance(s, ast.Assign) and getattr(s.targets[0], "id", None) == "log")
         and not (isinstance(s, ast.Expr) and isinstance(s.value, ast.Call) and getattr(s.value.func, "id", None) == "log")]
    if [a.arg for a in f.args.args] != ["self", "exc"] or len(b) != 3:
        raise Abort("connection_lost: unexpected shape")
    for st, who in zip(b, ("subscriber", "discovery", "announcer")):
        expect_src(st, f"asyncio.get_event_loop().call_soon(self.{who}.connection_lost, exc)", "connection_lost")
    out.append("Definition gen_connection_lost : list ract := LSoonSubscriber :: LSoonDiscovery :: LSoonAnnouncer :: [].\n")
    return out


# ---- sd.py: ServiceDiscover.send_find_services / _service_found (C13) ----
def gen_find_task(sd):
    D = sd.ServiceDiscover
    t = ast.parse(textwrap.dedent(inspect.getsource(D.send_find_services))).body[0]
    if not isinstance(t, ast.AsyncFunctionDef) or [a.arg for a in t.args.args] != ["self"]:
        raise Abort("send_find_services: not a coroutine of self")
    b = [s for s in body_of(t) if not is_noise(s)]
    if len(b) != 7:
        raise Abort("send_find_services: unexpected shape")
    expect_src(b[0], """
        if not self.watched_services:
            return
        """, "send_find_services (nothing watched)")
    # the comprehension of _build_entries: which services, which TTL, which polarity of the filter
    be = b[1]
    if not (isinstance(be, ast.FunctionDef) and be.name == "_build_entries" and not be.args.args and len(be.body) == 1
            and isinstance(be.body[0], ast.Return) and isinstance(be.body[0].value, ast.ListComp)):
        raise Abort("_build_entries: unexpected shape")
    lc = be.body[0].value
    if len(lc.generators) != 1 or lc.generators[0].is_async or len(lc.generators[0].ifs) != 1:
        raise Abort("_build_entries: unexpected comprehension")
    g = lc.generators[0]
    expect_src(ast.Expr(g.target), "service", "_build_entries (target)")
    expect_src(ast.Expr(g.iter), "self.watched_services.keys()", "_build_entries (iter)")
    elt = lc.elt
    if not (isinstance(elt, ast.Call) and dotted(elt.func) == "service.create_find_entry" and len(elt.args) == 1 and not elt.keywords):
        raise Abort("_build_entries: unexpected element")
    ttl = dotted(elt.args[0])
    if ttl not in ("self.timings.FIND_TTL",):
        raise Abort("_build_entries: unexpected TTL " + str(ttl))
    cond = g.ifs[0]
    neg = False
    if isinstance(cond, ast.UnaryOp) and isinstance(cond.op, ast.Not):
        neg, cond = True, cond.operand
    expect_src(ast.Expr(cond), "self._service_found(service)", "_build_entries (filter)")
    keep = "negb (found s)" if neg else "found s"
    f = fn_ast(D._service_found)
    bf = [s for s in body_of(f) if not is_noise(s)]
    if [a.arg for a in f.args.args] != ["self", "service"] or len(bf) != 1:
        raise Abort("_service_found: unexpected shape")
    expect_src(bf[0], "return any(service.matches_service(s) for s in self.found_services.entries())", "_service_found")
    expect_src(b[2], """
        await asyncio.sleep(random.uniform(self.timings.INITIAL_DELAY_MIN, self.timings.INITIAL_DELAY_MAX))
        """, "send_find_services (initial delay)")
    round_src = ["find_entries = _build_entries()", """
        if not find_entries:
            return
        """, "self.sd.send_sd(find_entries)"]
    for st, want in zip(b[3:6], round_src):
        expect_src(st, want, "send_find_services (first round)")
    lp = b[6]
    if not (isinstance(lp, ast.For) and not lp.orelse and len(lp.body) == 4):
        raise Abort("send_find_services: unexpected loop")
    expect_src(ast.Expr(lp.target), "i", "send_find_services (loop variable)")
    expect_src(ast.Expr(lp.iter), "range(self.timings.REPETITIONS_MAX)", "send_find_services (loop range)")
    sl = lp.body[0]
    if not (isinstance(sl, ast.Expr) and isinstance(sl.value, ast.Await) and isinstance(sl.value.value, ast.Call)
            and dotted(sl.value.value.func) == "asyncio.sleep" and len(sl.value.value.args) == 1 and not sl.value.value.keywords):
        raise Abort("send_find_services: unexpected sleep")
    d = sl.value.value.args[0]
    if not (isinstance(d, ast.BinOp) and isinstance(d.op, ast.Mult) and isinstance(d.left, ast.BinOp) and isinstance(d.left.op, ast.Pow)
            and isinstance(d.left.left, ast.Constant) and type(d.left.left.value) is int and d.left.left.value >= 0
            and getattr(d.left.right, "id", None) == "i" and dotted(d.right) == "self.timings.REPETITIONS_BASE_DELAY"):
        raise Abort("send_find_services: unexpected repetition delay")
    for st, want in zip(lp.body[1:], round_src):
        expect_src(st, want, "send_find_services (repetition round)")
    return ["(* ServiceDiscover.send_find_services: the entries of one round, the delay before repetition i, whether repetition i exists.\n"
            "   found = _service_found (any stored offer matches), mk = Service.create_find_entry, ws = watched_services.keys() *)\n"
            "Definition gen_find_entries {S E : Type} (found : S -> bool) (mk : S -> N -> E) (find_ttl : N) (ws : list S) : list E :=\n"
            f"  flat_map (fun s => if {keep} then (mk s find_ttl :: nil) else nil) ws.\n"
            "Definition gen_service_found {S T : Type} (matches_service : S -> T -> bool) (service : S) (entries : list T) : bool :=\n"
            "  existsb (matches_service service) entries.\n"
            f"Definition gen_find_delay (i base_delay : N) : N := N.pow {d.left.left.value} i * base_delay.\n"
            "Definition gen_find_has_round (i rep_max : N) : bool := i <? rep_max.\n"
            "(* one round: sleep first (fact FDraw = the initial window, otherwise gen_find_delay), rebuild, stop for good when empty, else send *)\n"
            "Definition gen_find_round {E W : Type} (entries : list E) (send : list E -> W -> W) (next finish : W -> W) (w : W) : W :=\n"
            "  match entries with nil => finish w | _ => next (send entries w) end.\n"]



# ---- sd.py: ServiceInstance._offer_task (C10) ----
def pow_delay(call_arg, what):
    d = call_arg
    if not (isinstance(d, ast.BinOp) and isinstance(d.op, ast.Mult) and isinstance(d.left, ast.BinOp) and isinstance(d.left.op, ast.Pow)
            and isinstance(d.left.left, ast.Constant) and type(d.left.left.value) is int and d.left.left.value >= 0
            and getattr(d.left.right, "id", None) == "i" and dotted(d.right) == "self.timings.REPETITIONS_BASE_DELAY"):
        raise Abort(what + ": unexpected repetition delay")
    return d.left.left.value


def sleep_arg(st, what):
    if not (isinstance(st, ast.Expr) and isinstance(st.value, ast.Await) and isinstance(st.value.value, ast.Call)
            and dotted(st.value.value.func) == "asyncio.sleep" and len(st.value.value.args) == 1 and not st.value.value.keywords):
        raise Abort(what + ": unexpected sleep")
    return st.value.value.args[0]


def gen_offer_task(sd):
    t = ast.parse(textwrap.dedent(inspect.getsource(sd.ServiceInstance._offer_task))).body[0]
    if not isinstance(t, ast.AsyncFunctionDef) or [a.arg for a in t.args.args] != ["self"]:
        raise Abort("_offer_task: not a coroutine of self")
    b = [s for s in body_of(t) if not is_noise(s)]
    # the warning about CYCLIC_OFFER_DELAY vs TTL: an if whose body only logs
    b = [s for s in b if not (isinstance(s, ast.If) and not s.orelse and all(is_noise(x) for x in s.body))]
    if len(b) != 4:
        raise Abort("_offer_task: unexpected shape")
    expect_src(b[0], "ttl = self.timings.ANNOUNCE_TTL", "_offer_task (ttl)")
    expect_src(b[1], """
        await asyncio.sleep(random.uniform(self.timings.INITIAL_DELAY_MIN, self.timings.INITIAL_DELAY_MAX))
        """, "_offer_task (initial delay)")
    expect_src(b[2], "self._send_offer()", "_offer_task (first offer)")
    tr = b[3]
    if not (isinstance(tr, ast.Try) and len(tr.body) == 4 and len(tr.handlers) == 1 and not tr.orelse and len(tr.finalbody) == 1):
        raise Abort("_offer_task: unexpected try")
    expect_src(tr.body[0], "self._can_answer_offers = True", "_offer_task (can answer)")
    lp = tr.body[1]
    if not (isinstance(lp, ast.For) and not lp.orelse and len(lp.body) == 2):
        raise Abort("_offer_task: unexpected loop")
    expect_src(ast.Expr(lp.target), "i", "_offer_task (loop variable)")
    expect_src(ast.Expr(lp.iter), "range(self.timings.REPETITIONS_MAX)", "_offer_task (loop range)")
    base = pow_delay(sleep_arg(lp.body[0], "_offer_task"), "_offer_task")
    expect_src(lp.body[1], "self._send_offer()", "_offer_task (repetition)")
    expect_src(tr.body[2], """
        if not self.timings.CYCLIC_OFFER_DELAY:
            return
        """, "_offer_task (not cyclic)")
    expect_src(tr.body[3], """
        while True:
            await asyncio.sleep(self.timings.CYCLIC_OFFER_DELAY)
            self._send_offer()
        """, "_offer_task (cyclic phase)")
    h = tr.handlers[0]
    expect_src(ast.Expr(h.type), "asyncio.CancelledError", "_offer_task (handler)")
    if h.name is not None or len(h.body) != 2:
        raise Abort("_offer_task: unexpected handler")
    expect_src(h.body[0], "self._can_answer_offers = False", "_offer_task (cancelled)")
    expect_src(h.body[1], "raise", "_offer_task (re-raise)")
    expect_src(tr.finalbody[0], """
        if self.timings.CYCLIC_OFFER_DELAY:
            self._send_offer(stop=True)
        """, "_offer_task (finally)")
    return ["(* ServiceInstance._offer_task after the offer of loop index i: the next repetition, return (not cyclic), or the cyclic phase;\n"
            "   and what the finally clause does when the task is cancelled inside the try block *)\n"
            "Definition gen_offer_next {W : Type} (i rep_max base_delay cyclic : N) (sleep_rep : N -> W) (ret : W) (sleep_cyclic : N -> W) : W :=\n"
            f"  if i <? rep_max then sleep_rep (N.pow {base} i * base_delay) else if cyclic =? 0 then ret else sleep_cyclic cyclic.\n"
            "Definition gen_offer_finally_sends_stop (cyclic : N) : bool := negb (cyclic =? 0).\n"]



# ---- sd.py: ServiceSubscriber._subscribe (C14) ----
def gen_subscribe_task(sd):
    t = ast.parse(textwrap.dedent(inspect.getsource(sd.ServiceSubscriber._subscribe))).body[0]
    if not isinstance(t, ast.AsyncFunctionDef) or [a.arg for a in t.args.args] != ["self"]:
        raise Abort("_subscribe: not a coroutine of self")
    b = [s for s in body_of(t) if not is_noise(s)]
    if len(b) != 1 or not isinstance(b[0], ast.While) or b[0].orelse or len(b[0].body) != 3:
        raise Abort("_subscribe: unexpected shape")
    expect_src(ast.Expr(b[0].test), "True", "_subscribe (loop)")
    r = b[0].body
    expect_src(r[0], """
        for endpoint, entries in self._group_entries().items():
            self._send_start_subscribe(endpoint, entries)
        """, "_subscribe (round)")
    expect_src(r[1], """
        if self.timings.SUBSCRIBE_REFRESH_INTERVAL is None:
            break
        """, "_subscribe (no refresh)")
    expect_src(r[2], """
        try:
            await asyncio.sleep(self.timings.SUBSCRIBE_REFRESH_INTERVAL)
        except asyncio.CancelledError:
            break
        """, "_subscribe (sleep)")
    return ["(* ServiceSubscriber._subscribe: one pass of the while loop up to the sleep; a cancellation during the sleep ends the task *)\n"
            "Definition gen_subscribe_round {W G : Type} (groups : list G) (send_start_subscribe : G -> W -> W)\n"
            "    (refresh_interval : W -> option N) (finish : W -> W) (sleep : N -> W -> W) (w : W) : W :=\n"
            "  let w1 := fold_left (fun acc g => send_start_subscribe g acc) groups w in\n"
            "  match refresh_interval w1 with None => finish w1 | Some r => sleep r w1 end.\n"
            "Definition gen_subscribe_cancelled_in_sleep_ends : bool := true.\n"]



# ---- sd.py: ServiceDiscoveryProtocol.send_sd / start / stop (C08, C15) ----
def kw_of(call, name):
    for k in call.keywords:
        if k.arg == name:
            return k.value
    raise Abort("missing keyword " + name)


def gen_send_sd(sd):
    out = []
    P = sd.ServiceDiscoveryProtocol
    f = fn_ast(P.send_sd)
    b = [s for s in body_of(f) if not is_noise(s)]
    if [a.arg for a in f.args.args] != ["self", "entries", "remote"] or len(b) != 6:
        raise Abort("send_sd: unexpected shape")
    expect_src(b[0], """
        if not entries:
            return
        """, "send_sd (empty)")
    expect_src(b[1], "flag_reboot, session_id = self.session_storage.assign_outgoing(remote)", "send_sd (session)")
    m = b[2]
    if not (isinstance(m, ast.Assign) and getattr(m.targets[0], "id", None) == "msg" and isinstance(m.value, ast.Call)
            and dotted(m.value.func) == "someip.header.SOMEIPSDHeader" and not m.value.args and sorted(k.arg for k in m.value.keywords) == ["entries", "flag_reboot", "flag_unicast"]):
        raise Abort("send_sd: unexpected SD header")
    if getattr(kw_of(m.value, "flag_reboot"), "id", None) != "flag_reboot" or src_norm(kw_of(m.value, "entries")) != src_norm(ast.parse("tuple(entries)").body[0].value):
        raise Abort("send_sd: unexpected SD header fields")
    fu = kw_of(m.value, "flag_unicast")
    if not (isinstance(fu, ast.Constant) and isinstance(fu.value, bool)):
        raise Abort("send_sd: flag_unicast is not a constant")
    expect_src(b[3], "msg_assigned = msg.assign_option_indexes()", "send_sd (indexes)")
    h = b[4]
    if not (isinstance(h, ast.Assign) and getattr(h.targets[0], "id", None) == "hdr" and isinstance(h.value, ast.Call) and dotted(h.value.func) == "someip.header.SOMEIPHeader"
            and not h.value.args and sorted(k.arg for k in h.value.keywords) == ["client_id", "interface_version", "message_type", "method_id", "payload", "service_id", "session_id"]):
        raise Abort("send_sd: unexpected SOME/IP header")
    for name, want in (("service_id", "someip.header.SD_SERVICE"), ("method_id", "someip.header.SD_METHOD"), ("message_type", "someip.header.SOMEIPMessageType.NOTIFICATION")):
        if dotted(kw_of(h.value, name)) != want:
            raise Abort("send_sd: unexpected " + name)
    if getattr(kw_of(h.value, "session_id"), "id", None) != "session_id" or src_norm(kw_of(h.value, "payload")) != src_norm(ast.parse("msg_assigned.build()").body[0].value):
        raise Abort("send_sd: unexpected session id / payload")
    cid, iv = kw_of(h.value, "client_id"), kw_of(h.value, "interface_version")
    if not all(isinstance(x, ast.Constant) and isinstance(x.value, int) and not isinstance(x.value, bool) for x in (cid, iv)):
        raise Abort("send_sd: client id / interface version are not constants")
    expect_src(b[5], "self.send(hdr.build(), remote)", "send_sd (send)")
    out.append("Definition gen_send_sd (no_entries : bool) : list sdact :=\n  if no_entries then [] else (SAssignSession :: SBuildSend :: []).\n")
    out.append(f"Definition gen_sd_flag_unicast : bool := {'true' if fu.value else 'false'}.\n")
    out.append(f"Definition gen_sd_client_id : N := {cid.value}.\n")
    out.append(f"Definition gen_sd_interface_version : N := {iv.value}.\n")
    for name, order in (("start", ["subscriber", "announcer", "discovery"]), ("stop", ["discovery", "announcer", "subscriber"])):
        f = fn_ast(getattr(P, name))
        b = [s for s in body_of(f) if not is_noise(s)]
        if len(b) != 3:
            raise Abort(name + ": unexpected shape")
        for st, who in zip(b, order):
            expect_src(st, f"self.{who}.{name}()", "protocol " + name)
        out.append(f"Definition gen_proto_{name} : list pact := " + " :: ".join("P" + w.capitalize() for w in order) + " :: [].\n")
    return out


# ---- service.py: SimpleService.message_received (the reply decision chain of C16) ----
MSG_ATTR = {"service_id": "m_sid m", "interface_version": "m_iv m", "method_id": "m_mid m", "message_type": "m_mt m", "return_code": "m_rc m"}
SELF_ATTR = {"service_id": "svc_id", "version_major": "ver"}


def msg_num(n):
    if isinstance(n, ast.Attribute):
        d = dotted(n)
        if d and d.startswith("someip_message.") and n.attr in MSG_ATTR:
            return MSG_ATTR[n.attr]
        if d and d.startswith("self.") and n.attr in SELF_ATTR:
            return SELF_ATTR[n.attr]
        if d and d.startswith("header.SOMEIPReturnCode."):
            return "RC_" + n.attr
        if d and d.startswith("header.SOMEIPMessageType."):
            return "MT_" + n.attr
    raise Abort("service: unsupported operand " + ast.dump(n)[:100])


def msg_cond(n):
    if isinstance(n, ast.Name) and n.id == "multicast":
        return "mc"
    if isinstance(n, ast.BoolOp) and isinstance(n.op, ast.And):
        return "(" + " && ".join(msg_cond(v) for v in n.values) + ")"
    if isinstance(n, ast.Compare) and len(n.ops) == 1:
        a, b, op = n.left, n.comparators[0], n.ops[0]
        if isinstance(op, (ast.Is, ast.IsNot)) and isinstance(b, ast.Constant) and b.value is None and isinstance(a, ast.Name):
            atom = {"method": "known", "response": "has_response"}.get(a.id)
            if atom is None:
                raise Abort("service: 'is None' on " + a.id)
            return f"(negb {atom})" if isinstance(op, ast.Is) else atom
        if isinstance(op, ast.NotIn) and isinstance(b, ast.Tuple):
            return "(negb (" + " || ".join(f"({msg_num(a)} =? {msg_num(x)})" for x in b.elts) + "))"
        if isinstance(op, ast.NotEq):
            return f"(negb ({msg_num(a)} =? {msg_num(b)}))"
        if isinstance(op, ast.Eq):
            return f"({msg_num(a)} =? {msg_num(b)})"
    raise Abort("service: unsupported condition " + ast.dump(n)[:100])


def is_noise(st):
    """logging and warnings"""
    if isinstance(st, ast.Expr) and isinstance(st.value, ast.Call):
        d = dotted(st.value.func) or ""
        return d.startswith("self.log.") or d.startswith("LOG.") or d == "warnings.warn"
    return False


def error_call(st):
    """self.send_error_response(someip_message, addr, header.SOMEIPReturnCode.X) -> RC_X"""
    if (isinstance(st, ast.Expr) and isinstance(st.value, ast.Call) and dotted(st.value.func) == "self.send_error_response"
            and not st.value.keywords and len(st.value.args) == 3
            and [getattr(a, "id", None) for a in st.value.args[:2]] == ["someip_message", "addr"]):
        return msg_num(st.value.args[2])
    return None


def gen_service(svc):
    f = fn_ast(svc.SimpleService.message_received)
    if [a.arg for a in f.args.args] != ["self", "someip_message", "addr", "multicast"]:
        raise Abort("message_received: unexpected parameters")
    stmts = [s for s in body_of(f) if not is_noise(s)]
    lines = []
    k = 0
    while k < len(stmts) and not isinstance(stmts[k], ast.Try):
        st = stmts[k]
        k += 1
        if (isinstance(st, ast.Assign) and len(st.targets) == 1 and getattr(st.targets[0], "id", "") == "method"
                and isinstance(st.value, ast.Call) and dotted(st.value.func) == "self.methods.get"
                and [dotted(a) for a in st.value.args] == ["someip_message.method_id"]):
            continue        # method = self.methods.get(someip_message.method_id): the atom `known`
        if not (isinstance(st, ast.If) and not st.orelse):
            raise Abort("message_received: unsupported statement before the handler call: " + type(st).__name__)
        body = [s for s in st.body if not is_noise(s)]
        if len(body) == 1 and isinstance(body[0], ast.Return) and body[0].value is None:
            lines.append(f"  if {msg_cond(st.test)} then (GNoReply, false) else")
        elif len(body) == 2 and error_call(body[0]) and isinstance(body[1], ast.Return) and body[1].value is None:
            lines.append(f"  if {msg_cond(st.test)} then (GError {error_call(body[0])}, false) else")
        else:
            raise Abort("message_received: a guard must reply with one error (or nothing) and return")
    rest = stmts[k:]
    # try: response = method(someip_message, addr)  except MalformedMessageError: <error>; return
    if len(rest) != 2 or not isinstance(rest[0], ast.Try) or not isinstance(rest[1], ast.If) or rest[1].orelse:
        raise Abort("message_received: expected the handler call in a try followed by the positive reply")
    tr = rest[0]
    tb = [s for s in tr.body if not is_noise(s)]
    ok = (len(tb) == 1 and isinstance(tb[0], ast.Assign) and getattr(tb[0].targets[0], "id", "") == "response"
          and isinstance(tb[0].value, ast.Call) and getattr(tb[0].value.func, "id", "") == "method"
          and [getattr(a, "id", None) for a in tb[0].value.args] == ["someip_message", "addr"]
          and len(tr.handlers) == 1 and getattr(tr.handlers[0].type, "id", "") == "MalformedMessageError" and not tr.orelse and not tr.finalbody)
    if not ok:
        raise Abort("message_received: unexpected handler call")
    hb = [s for s in tr.handlers[0].body if not is_noise(s)]
    if not (len(hb) == 2 and error_call(hb[0]) and isinstance(hb[1], ast.Return) and hb[1].value is None):
        raise Abort("message_received: unexpected except body")
    lines.append(f"  if malformed then (GError {error_call(hb[0])}, true) else")
    pos = [s for s in rest[1].body if not is_noise(s)]
    c = pos[0].value if len(pos) == 1 and isinstance(pos[0], ast.Expr) and isinstance(pos[0].value, ast.Call) else None
    if not (c and dotted(c.func) == "self.send_positive_response" and [getattr(a, "id", None) for a in c.args] == ["someip_message", "addr"]
            and [(kw.arg, getattr(kw.value, "id", None)) for kw in c.keywords] == [("payload", "response")]):
        raise Abort("message_received: unexpected positive reply")
    lines.append(f"  if {msg_cond(rest[1].test)} then (GPositive, true) else (GNoReply, true).")
    return ["Definition gen_service_receive (svc_id ver : N) (known : bool) (m : someip) (mc malformed has_response : bool) : greply * bool :=\n"
            + "\n".join(lines) + "\n"]


# ---- sd.py: ServiceAnnouncer.handle_subscribe / announce_service / stop_announce_service (C11, C10) ----
def gen_announcer(sd):
    out = []
    A = sd.ServiceAnnouncer
    f = fn_ast(A.handle_subscribe)
    b = [s for s in body_of(f) if not is_noise(s)]
    if [a.arg for a in f.args.args] != ["self", "entry", "addr"] or len(b) not in (3, 4):
        raise Abort("ServiceAnnouncer.handle_subscribe: unexpected shape")
    expect_src(b[0], "matching_services = []", "announcer.handle_subscribe (1)")
    expect_src(b[1], """
        for instance in self.announcing_services:
            if instance.handle_subscribe(entry, addr):
                matching_services.append(instance)
        """, "announcer.handle_subscribe (2)")
    g = b[2]
    gb = [s for s in g.body if not is_noise(s)] if isinstance(g, ast.If) else []
    if not (isinstance(g, ast.If) and not g.orelse and len(gb) == 3):
        raise Abort("announcer.handle_subscribe: expected the nothing-matched branch")
    expect_src(ast.Expr(g.test), "not matching_services", "announcer.handle_subscribe (3)")
    expect_src(gb[0], "subscription = EventgroupSubscription.from_subscribe_entry(entry)", "announcer.handle_subscribe (4)")
    expect_src(gb[1], "self._send_subscribe_nack(subscription, addr)", "announcer.handle_subscribe (5)")
    if not (isinstance(gb[2], ast.Return) and gb[2].value is None):
        raise Abort("announcer.handle_subscribe: expected return")
    if len(b) == 4:
        w = b[3]      # "if len(matching_services) > 1: log"
        if not (isinstance(w, ast.If) and not w.orelse and all(is_noise(s) for s in w.body)):
            raise Abort("announcer.handle_subscribe: unexpected tail")
    f = fn_ast(A._send_subscribe_nack)
    b = [s for s in body_of(f) if not is_noise(s)]
    if len(b) != 1:
        raise Abort("_send_subscribe_nack: unexpected shape")
    expect_src(b[0], "self.queue_send(subscription.to_nack_entry(), remote=addr)", "_send_subscribe_nack")
    out.append("(* every announced instance is asked, in order; a Nack is queued for the sender exactly when none of them took the entry *)\n"
               "Definition gen_announcer_subscribe_nack (any_instance_took_it : bool) : bool := negb any_instance_took_it.\n")
    f = fn_ast(A.announce_service)
    b = [s for s in body_of(f) if not is_noise(s)]
    if [a.arg for a in f.args.args] != ["self", "instance"] or len(b) != 2:
        raise Abort("announce_service: unexpected shape")
    expect_src(b[0], """
        if self.started:
            instance.start()
        """, "announce_service (1)")
    expect_src(b[1], "self.announcing_services.append(instance)", "announce_service (2)")
    f = fn_ast(A.stop_announce_service)
    b = [s for s in body_of(f) if not is_noise(s)]
    if [a.arg for a in f.args.args] != ["self", "instance", "send_stop"] or len(b) != 2:
        raise Abort("stop_announce_service: unexpected shape")
    expect_src(b[0], "self.announcing_services.remove(instance)", "stop_announce_service (1)")
    expect_src(b[1], """
        if send_stop and self.started:
            instance.stop()
        """, "stop_announce_service (2)")
    out.append("Definition gen_announce_service (started : bool) : list aact := (if started then (AStartInstance :: []) else []) ++ (AAppend :: []).\n")
    out.append("Definition gen_stop_announce_service (listed send_stop started : bool) : list aact :=\n"
               "  if negb listed then (ARaiseValueError :: []) else ARemove :: (if send_stop && started then (AStopInstance :: []) else []).\n")
    return out


# ---- service.py: SimpleService.client_subscribed / SimpleEventgroup.subscribe / unsubscribe (C17) ----
def gen_eventgroup_subscription(svc):
    out = []
    f = fn_ast(svc.SimpleService.client_subscribed)
    b = body_of(f)
    if [a.arg for a in f.args.args] != ["self", "subscription", "source"] or len(b) != 1 or not isinstance(b[0], ast.Try):
        raise Abort("client_subscribed: unexpected shape")
    t = b[0]
    # except Exception -> NakSubscription: every failure inside is a refusal
    hb = [s for s in t.handlers[0].body if not is_noise(s)] if len(t.handlers) == 1 else []
    if len(t.handlers) != 1 or getattr(t.handlers[0].type, "id", "") != "Exception" or t.orelse or t.finalbody or len(hb) != 1:
        raise Abort("client_subscribed: unexpected handler")
    expect_src(hb[0], "raise sd.NakSubscription from exc", "client_subscribed (handler)")
    tb = [s for s in t.body if not is_noise(s)]
    if len(tb) != 5:
        raise Abort("client_subscribed: expected five statements in the try block")
    expect_src(tb[0], "evgrp = self.eventgroups.get(subscription.id)", "client_subscribed (lookup)")
    if not (isinstance(tb[1], ast.Assert) and getattr(tb[1].test, "id", None) == "evgrp"):
        raise Abort("client_subscribed: expected 'assert evgrp'")
    g = tb[2]
    gb = [s for s in g.body if not is_noise(s)] if isinstance(g, ast.If) else []
    if not (isinstance(g, ast.If) and not g.orelse and len(gb) == 1):
        raise Abort("client_subscribed: expected the endpoint-count guard")
    expect_src(gb[0], "raise sd.NakSubscription", "client_subscribed (refusal)")
    c = g.test
    if not (isinstance(c, ast.Compare) and len(c.ops) == 1 and isinstance(c.ops[0], ast.NotEq) and src_norm(c.left) == src_norm(ast.parse("len(subscription.endpoints)").body[0].value)
            and isinstance(c.comparators[0], ast.Constant) and isinstance(c.comparators[0].value, int)):
        raise Abort("client_subscribed: unexpected endpoint-count test")
    expect_src(tb[3], "ep = next(iter(subscription.endpoints))", "client_subscribed (endpoint)")
    expect_src(tb[4], "evgrp.subscribe(ep)", "client_subscribed (subscribe)")
    out.append("Definition gen_client_subscribed_accepts (known_eventgroup : bool) (n_endpoints : N) : bool :=\n"
               f"  known_eventgroup && negb (negb (n_endpoints =? {c.comparators[0].value})).\n")
    # SimpleEventgroup.subscribe: counter += 1, has_clients.set(), initial notification of ALL values
    f = fn_ast(svc.SimpleEventgroup.subscribe)
    b = body_of(f)
    if [a.arg for a in f.args.args] != ["self", "endpoint"] or len(b) != 3:
        raise Abort("SimpleEventgroup.subscribe: unexpected shape")
    a0 = b[0]
    if not (isinstance(a0, ast.AugAssign) and isinstance(a0.op, ast.Add) and src_norm(a0.target) == src_norm(ast.parse("self.subscribed_endpoints[endpoint]").body[0].value)
            and isinstance(a0.value, ast.Constant) and isinstance(a0.value.value, int)):
        raise Abort("SimpleEventgroup.subscribe: unexpected counter update")
    expect_src(b[1], "self.has_clients.set()", "SimpleEventgroup.subscribe (has_clients)")
    expect_src(b[2], 'asyncio.create_task(self._notify_single(endpoint, events=self.values.keys(), label="initial"))', "SimpleEventgroup.subscribe (initial)")
    out.append(f"Definition gen_eg_subscribe_count (count : N) : N := count + {a0.value.value}.\n")
    # SimpleEventgroup.unsubscribe
    f = fn_ast(svc.SimpleEventgroup.unsubscribe)
    b = body_of(f)
    if [a.arg for a in f.args.args] != ["self", "endpoint"] or len(b) != 4:
        raise Abort("SimpleEventgroup.unsubscribe: unexpected shape")
    expect_src(b[0], """
        if endpoint not in self.subscribed_endpoints:
            raise KeyError(endpoint)
        """, "unsubscribe (unknown)")
    a1 = b[1]
    if not (isinstance(a1, ast.AugAssign) and isinstance(a1.op, ast.Sub) and src_norm(a1.target) == src_norm(ast.parse("self.subscribed_endpoints[endpoint]").body[0].value)
            and isinstance(a1.value, ast.Constant) and isinstance(a1.value.value, int)):
        raise Abort("SimpleEventgroup.unsubscribe: unexpected counter update")
    d = b[2]
    if not (isinstance(d, ast.If) and not d.orelse and len(d.body) == 1 and isinstance(d.test, ast.Compare) and len(d.test.ops) == 1 and isinstance(d.test.ops[0], ast.LtE)
            and src_norm(d.test.left) == src_norm(ast.parse("self.subscribed_endpoints[endpoint]").body[0].value)
            and isinstance(d.test.comparators[0], ast.Constant) and isinstance(d.test.comparators[0].value, int)):
        raise Abort("SimpleEventgroup.unsubscribe: unexpected removal test")
    expect_src(d.body[0], "del self.subscribed_endpoints[endpoint]", "unsubscribe (del)")
    expect_src(b[3], """
        if not self.subscribed_endpoints:
            self.has_clients.clear()
        """, "unsubscribe (has_clients)")
    out.append("(* None: KeyError; Some None: the endpoint is removed; Some (Some c): it stays with count c.  The count is at least 1 while present *)\n"
               "Definition gen_eg_unsubscribe (present : bool) (count : N) : option (option N) :=\n"
               f"  if negb present then None else let c := count - {a1.value.value} in if c <=? {d.test.comparators[0].value} then Some None else Some (Some c).\n")
    return out


def main():
    out_path = sys.argv[1]
    try:
        import someip.config as cfg
        import someip.sd as sd
        import someip.service as svc
        parts = gen_matchers(cfg) + gen_check_received(sd) + gen_assign_outgoing(sd) + gen_skeletons(sd) + gen_inst_subscribe(sd) + gen_subscriber(sd) + gen_timed_store(sd) + gen_queue_send(sd) + gen_find_answer(sd) + gen_protocol_entry(sd) + gen_send_sd(sd) + gen_announcer(sd) + gen_find_task(sd) + gen_offer_task(sd) + gen_subscribe_task(sd) + gen_service(svc) + gen_eventgroup_subscription(svc)
    except Abort as exc:
        print("gen_logic: ABORT:", exc)
        return 2
    except Exception as exc:  # noqa: BLE001
        print("gen_logic: ABORT (unexpected):", repr(exc)[:300])
        return 2
    text = ("(* GENERATED by harness/gen_logic.py from the source text of /repo/src/someip/config.py and sd.py. DO NOT EDIT. *)\n"
            "From PS Require Import Lib.Base Generated.Consts Model.SdTypes Model.Config Model.Session Model.Skel.\n\n" + "\n".join(parts))
    old = open(out_path).read() if os.path.exists(out_path) else None
    if old != text:
        with open(out_path, "w") as f:
            f.write(text)
        print("gen_logic: written (changed)")
    else:
        print("gen_logic: unchanged")
    return 0


if __name__ == "__main__":
    sys.exit(main())
