"""Conversions between pysomeip objects and the s-expression forms of Model/SdTypes.v,
Model/Config.v.  Imports someip from /repo/src (PYTHONPATH)."""
import ipaddress

import someip.config as C
import someip.header as H

CLS = {
    H.IPv4EndpointOption: 2,
    H.IPv4MulticastOption: 3,
    H.IPv4SDEndpointOption: 4,
    H.IPv6EndpointOption: 5,
    H.IPv6MulticastOption: 6,
    H.IPv6SDEndpointOption: 7,
}
CLS_REV = {v: k for k, v in CLS.items()}


def s_str(s):
    return [ord(c) for c in s]


def d_str(x):
    return "".join(chr(c) for c in x)


def s_opt(o):
    if isinstance(o, H.SOMEIPSDUnknownOption):
        return [0, o.type, bytes(o.payload)]
    if isinstance(o, H.SOMEIPSDLoadBalancingOption):
        return [1, o.priority, o.weight]
    if isinstance(o, H.SOMEIPSDConfigOption):
        return [2, [[s_str(k), None if v is None else [s_str(v)]] for k, v in o.configs]]
    if type(o) in CLS:
        return [3, CLS[type(o)], o.address.packed, int(o.l4proto), o.port]
    raise TypeError(f"unknown option {o!r}")


def d_opt(x):
    if x[0] == 0:
        return H.SOMEIPSDUnknownOption(type=x[1], payload=_b(x[2]))
    if x[0] == 1:
        return H.SOMEIPSDLoadBalancingOption(priority=x[1], weight=x[2])
    if x[0] == 2:
        return H.SOMEIPSDConfigOption(
            configs=tuple((d_str(k), None if not v else d_str(v[0])) for k, v in x[1])
        )
    if x[0] == 3:
        cls = CLS_REV[x[1]]
        raw = _b(x[2])
        addr = ipaddress.IPv4Address(raw) if x[1] < 5 else ipaddress.IPv6Address(raw)
        try:
            proto = H.L4Protocols(x[3])
        except ValueError:
            proto = x[3]
        return cls(address=addr, l4proto=proto, port=x[4])
    raise ValueError(x)


def _b(x):
    return b"" if x == [] else bytes(x)


def s_entry(e):
    idx = None
    if not e.options_resolved:
        idx = [[e.option_index_1, e.option_index_2, e.num_options_1, e.num_options_2]]
    return [
        int(e.sd_type),
        e.service_id,
        e.instance_id,
        e.major_version,
        e.ttl,
        e.minver_or_counter,
        [s_opt(o) for o in e.options_1],
        [s_opt(o) for o in e.options_2],
        idx,
    ]


def d_entry(x):
    kw = {}
    if x[8]:
        oi1, oi2, no1, no2 = x[8][0]
        kw = dict(option_index_1=oi1, option_index_2=oi2, num_options_1=no1, num_options_2=no2)
    return H.SOMEIPSDEntry(
        sd_type=H.SOMEIPSDEntryType(x[0]),
        service_id=x[1],
        instance_id=x[2],
        major_version=x[3],
        ttl=x[4],
        minver_or_counter=x[5],
        options_1=tuple(d_opt(o) for o in x[6]),
        options_2=tuple(d_opt(o) for o in x[7]),
        **kw,
    )


def s_sd(h):
    return [
        [s_entry(e) for e in h.entries],
        [s_opt(o) for o in h.options],
        bool(h.flag_reboot),
        bool(h.flag_unicast),
        h.flags_unknown,
    ]


def d_sd(x):
    return H.SOMEIPSDHeader(
        entries=tuple(d_entry(e) for e in x[0]),
        options=tuple(d_opt(o) for o in x[1]),
        flag_reboot=bool(x[2]),
        flag_unicast=bool(x[3]),
        flags_unknown=x[4],
    )


def s_msg(m):
    return [
        m.service_id,
        m.method_id,
        m.client_id,
        m.session_id,
        m.interface_version,
        int(m.message_type),
        m.protocol_version,
        int(m.return_code),
        bytes(m.payload),
    ]


def d_msg(x):
    return H.SOMEIPHeader(
        service_id=x[0],
        method_id=x[1],
        client_id=x[2],
        session_id=x[3],
        interface_version=x[4],
        message_type=H.SOMEIPMessageType(x[5]),
        protocol_version=x[6],
        return_code=H.SOMEIPReturnCode(x[7]),
        payload=_b(x[8]),
    )


def s_service(s):
    return [
        s.service_id,
        s.instance_id,
        s.major_version,
        s.minor_version,
        [s_opt(o) for o in s.options_1],
        [s_opt(o) for o in s.options_2],
        sorted(s.eventgroups),
    ]


def d_service(x):
    return C.Service(
        service_id=x[0],
        instance_id=x[1],
        major_version=x[2],
        minor_version=x[3],
        options_1=tuple(d_opt(o) for o in x[4]),
        options_2=tuple(d_opt(o) for o in x[5]),
        eventgroups=frozenset(x[6]),
    )


def sockname_of(x):
    """(v6, packed, port) -> python sockname tuple"""
    v6, raw, port = bool(x[0]), _b(x[1]), x[2]
    if v6:
        return (str(ipaddress.IPv6Address(raw)), port, 0, 0)
    return (str(ipaddress.IPv4Address(raw)), port)


def s_sockname(t):
    ip = ipaddress.ip_address(t[0])
    return [ip.version == 6, ip.packed, t[1]]


def s_eg(g):
    return [
        g.service_id,
        g.instance_id,
        g.major_version,
        g.eventgroup_id,
        s_sockname(g.sockname),
        int(g.protocol),
    ]


def d_eg(x):
    return C.Eventgroup(
        service_id=x[0],
        instance_id=x[1],
        major_version=x[2],
        eventgroup_id=x[3],
        sockname=sockname_of(x[4]),
        protocol=H.L4Protocols(x[5]),
    )


ERR = {
    "ParseError": 1,
    "IncompleteReadError": 2,
    "UnicodeDecodeError": 3,
    "UnicodeEncodeError": 3,
    "error": 4,  # struct.error
    "ValueError": 5,
    "TypeError": 6,
    "KeyError": 7,
    "RuntimeError": 8,
}


def err_code(exc) -> int:
    """Map an exception to the model's enum; anything else is 98 (never produced by the model)."""
    import asyncio
    import struct

    if isinstance(exc, H.IncompleteReadError):
        return 2
    if isinstance(exc, H.ParseError):
        return 1
    if isinstance(exc, (UnicodeDecodeError, UnicodeEncodeError)):
        return 3
    if isinstance(exc, struct.error):
        return 4
    if isinstance(exc, asyncio.IncompleteReadError):
        return 9
    if type(exc) is ValueError:
        return 5
    if type(exc) is TypeError:
        return 6
    if type(exc) is KeyError:
        return 7
    if type(exc) is RuntimeError:
        return 8
    return 98


def s_res(fn, conv=lambda v: v):
    """Run fn(); return the sres form: (0 value) or (1 errcode)."""
    try:
        v = fn()
    except Exception as exc:  # noqa: BLE001 - every exception type is data here
        return [1, err_code(exc)]
    return [0, conv(v)]
