"""C11 - every unicast Subscribe gets exactly one correct Ack or Nack."""
import random

from .. import scen, stackprop

CODES = {1: "the acknowledgements sent to a subscriber differ from one correct Ack/Nack per unicast Subscribe (ids, counter, TTL, order, time)",
         2: "an acknowledgement was sent to the multicast group or to somebody who did not subscribe", 98: "a transmitted datagram did not decode"}


def run(ctx):
    r = ctx.rng
    quick = ctx.tier == "quick"
    ctx.rule = ("Subscribe entries over service / instance / major version / eventgroup (declared, undeclared) / counter {0,1,15} / TTL {0,1,2,3,infinite} / 0-2 endpoint "
                "options / extra options, unicast and multicast, several entries per message, against 1-3 instances (running, stopped, not started) with accepting "
                "and rejecting listeners, any prior subscription state; complete traces compared with the model; implementation trace judged by check_C11")
    ctx.assumptions = ["at most one instance matches a given entry (the property's proviso; entries matching several are not judged)"]
    n = 300 if quick else 10000
    scs = stackprop.corpus_scenarios("C11") + [scen.server_scenario(r) for _ in range(n)]
    r2 = random.Random(ctx.seed * 7919 + 11)      # a stream of its own: the scenarios above stay what they were
    scs += [scen.pair_in_one_message(r2) for _ in range(30 if quick else 1000)]
    rll = random.Random(ctx.seed * 7919 + 111)     # a stream of its own
    scs += [scen.link_local_twins(rll) for _ in range(30 if quick else 1000)]
    rwi = random.Random(ctx.seed * 7919 + 211)     # a stream of its own
    scs += [scen.wildcard_instance(rwi) for _ in range(30 if quick else 1000)]
    stackprop.run_scenarios(ctx, scs, 3011, CODES, what="subscribe acknowledgements")


def replay(ctx, rp):
    return stackprop.replay(ctx, rp, 3011)
