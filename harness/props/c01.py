"""C01 - SOME/IP message encoding round-trips and matches the wire layout."""
import someip.header as H
import someip.sd as S

from .. import conv, gen, sexp
from ..common import compare, incoq_crosscheck


class Recorder(S.SOMEIPDatagramProtocol):
    def __init__(self):
        super().__init__(logger="verif.c01")
        self.log.disabled = True
        self.got = []

    def message_received(self, msg, addr, multicast):
        self.got.append(msg)


class RawMsg:
    """A message object with out-of-range fields (dataclass does not validate)."""


SPEC_MESSAGE_TYPES = {"REQUEST": 0x00, "REQUEST_NO_RETURN": 0x01, "NOTIFICATION": 0x02, "REQUEST_ACK": 0x40, "REQUEST_NO_RETURN_ACK": 0x41,
                      "NOTIFICATION_ACK": 0x42, "RESPONSE": 0x80, "ERROR": 0x81, "RESPONSE_ACK": 0xC0, "ERROR_ACK": 0xC1}
SPEC_RETURN_CODES = {"E_OK": 0, "E_NOT_OK": 1, "E_UNKNOWN_SERVICE": 2, "E_UNKNOWN_METHOD": 3, "E_NOT_READY": 4, "E_NOT_REACHABLE": 5, "E_TIMEOUT": 6,
                     "E_WRONG_PROTOCOL_VERSION": 7, "E_WRONG_INTERFACE_VERSION": 8, "E_MALFORMED_MESSAGE": 9, "E_WRONG_MESSAGE_TYPE": 10}


def symbolic_values(ctx):
    """Every symbolic message type / return code must be the specification's number on the wire (bytes 14 / 15), and the
    specification's bytes must decode to that symbol."""
    for name, val in SPEC_MESSAGE_TYPES.items():
        mt = getattr(H.SOMEIPMessageType, name, None)
        b = bytes(H.SOMEIPHeader(1, 2, 3, 4, 5, mt, 1, H.SOMEIPReturnCode.E_OK, b"").build()) if mt is not None else None
        ok = b is not None and b[14] == val
        if ok:
            raw = bytearray(b); raw[14] = val
            try:
                ok = H.SOMEIPHeader.parse(bytes(raw))[0].message_type == mt
            except Exception:  # noqa: BLE001
                ok = False
        if not ok:
            ctx.violation("message type %s is not 0x%02x on the wire" % (name, val), dict(symbol=name, specification=val, built=None if b is None else b.hex()))
        ctx.case(("mt", name), kind="symbolic-message-type")
    for name, val in SPEC_RETURN_CODES.items():
        rc = getattr(H.SOMEIPReturnCode, name, None)
        b = bytes(H.SOMEIPHeader(1, 2, 3, 4, 5, H.SOMEIPMessageType.ERROR, 1, rc, b"").build()) if rc is not None else None
        ok = b is not None and b[15] == val
        raw = bytearray(bytes(H.SOMEIPHeader(1, 2, 3, 4, 5, H.SOMEIPMessageType.ERROR, 1, H.SOMEIPReturnCode.E_OK, b"").build())); raw[15] = val
        try:
            ok = ok and H.SOMEIPHeader.parse(bytes(raw))[0].return_code == rc
        except Exception:  # noqa: BLE001
            ok = False
        if not ok:
            ctx.violation("return code %s is not 0x%02x on the wire (or the specification's byte does not decode to it)" % (name, val),
                          dict(symbol=name, specification=val, built=None if b is None else b.hex(), spec_bytes=bytes(raw).hex()))
        ctx.case(("rc", name), kind="symbolic-return-code")


def run(ctx):
    r = ctx.rng
    quick = ctx.tier == "quick"
    ctx.rule = ("structured generation: ids from {0,1,0x7FFF,0x8000,0xFFFE,0xFFFF} + random, every message type x return code, payload "
                "lengths {0,1,2,7,8,9,15,16,17,255,256,4095,4096,65527..65537} + random, suffixes (empty / random / valid message / "
                "corrupted message), 1-12 messages per datagram and 63 - 4000 messages in one datagram, out-of-width fields, header mutations (version/type/code/length); sequences of datagrams "
                "of several senders through ONE protocol object with identical messages and messages repeating the ids of their predecessor; "
                "a case is non-trivial when it is a distinct (kind, input) whose build or parse succeeds or fails with a classified error")
    ctx.assumptions = ["messages are values of the library's own types (enum-typed message type / return code); payload bytes"]
    cases, impl, descr = [], [], []
    layout_cases = []
    symbolic_values(ctx)

    def add(op, arg, res, d):
        cases.append((op, arg))
        impl.append(res)
        descr.append(d)

    n_msgs = 1200 if quick else 40000
    n_big = 12 if quick else 300
    # every type x code once, then random
    combos = [(mt, rc) for mt in H.SOMEIPMessageType for rc in H.SOMEIPReturnCode]
    for k in range(n_msgs):
        m = gen.message(r, big=(k < n_big))
        if k < len(combos):
            m = H.SOMEIPHeader(m.service_id, m.method_id, m.client_id, m.session_id, m.interface_version, combos[k][0], 1, combos[k][1], m.payload)
        sm = conv.s_msg(m)
        b = m.build()
        add(101, sm, [0, bytes(b)], ("build", k))
        layout_cases.append((len(cases) - 1, sm, bytes(b)))
        suf = gen.suffix(r)
        res = conv.s_res(lambda: H.SOMEIPHeader.parse(bytes(b) + suf), lambda v: [conv.s_msg(v[0]), bytes(v[1])])
        add(102, bytes(b) + suf, res, ("parse", k))
        if res != [0, [sm, suf]]:
            ctx.violation("parse(build(m) + suffix) != (m, suffix)", dict(message=sexp.dumps(sm)[:2000], suffix=suf.hex(), got=sexp.dumps(res)[:2000]))
        ctx.case(("rt", sexp.dumps(sm), suf), kind="roundtrip-len%d" % min(len(m.payload), 65536 if len(m.payload) > 4096 else len(m.payload)) if len(m.payload) in gen.PAYLOAD_LENS + gen.BIG_LENS else "roundtrip-random-len",
                 sample=dict(message=sexp.dumps(sm)[:300], suffix=suf.hex()[:80]) if k < 2 else None)
    # out-of-width fields: build must raise struct.error, never emit bytes
    for k in range(200 if quick else 4000):
        m = gen.message(r, maxlen=16)
        field = r.choice(["service_id", "method_id", "client_id", "session_id", "interface_version", "protocol_version"])
        width = 8 if field in ("interface_version", "protocol_version") else 16
        bad = r.choice([1 << width, (1 << width) + 1, 1 << 32, (1 << 40) + 5])
        import dataclasses
        m2 = dataclasses.replace(m, **{field: bad})
        res = conv.s_res(lambda: bytes(m2.build()))
        add(101, conv.s_msg(m2), res, ("build-overflow", field, bad))
        if res[0] == 0:
            ctx.violation("build emitted bytes for a field exceeding its wire width", dict(message=sexp.dumps(conv.s_msg(m2)), bytes=res[1].hex()))
        ctx.case(("ovf", field, bad, sexp.dumps(conv.s_msg(m))), kind="build-overflow")
    # header mutation stream (guards are anchored here)
    for k in range(1500 if quick else 40000):
        m = gen.message(r, maxlen=32)
        b = bytearray(m.build() + gen.suffix(r))
        c = r.random()
        if c < 0.2:
            b[12] = r.choice([0, 2, 0xFF, r.getrandbits(8)])
        elif c < 0.4:
            b[14] = r.getrandbits(8)
        elif c < 0.6:
            b[15] = r.getrandbits(8)
        elif c < 0.85:
            ln = r.choice([0, 1, 7, 8, 9, len(m.payload) + 7, len(m.payload) + 9, len(b), 0xFFFFFFFF, r.getrandbits(32)])
            b[4:8] = ln.to_bytes(4, "big")
        else:
            b = b[: r.randrange(len(b) + 1)]
        b = bytes(b)
        res = conv.s_res(lambda: H.SOMEIPHeader.parse(b), lambda v: [conv.s_msg(v[0]), bytes(v[1])])
        add(102, b, res, ("parse-mutated", k))
        if res[0] == 0:
            # nothing but encodings decode: re-encoding gives back exactly the consumed prefix
            mm, rest = conv.d_msg(res[1][0]), res[1][1]
            if bytes(mm.build()) + rest != b:
                ctx.violation("parse accepted bytes that are not build(message) + rest", dict(input=b.hex(), got=sexp.dumps(res)))
        elif res[1] not in (1, 2):
            ctx.violation("parse raised something other than ParseError/IncompleteReadError", dict(input=b.hex(), error=res[1]))
        ctx.case(("mut", b), kind="parse-mutated-" + ("ok" if res[0] == 0 else "err%d" % res[1]))
    # datagrams: several concatenated messages delivered one by one, in order
    for k in range(300 if quick else 6000):
        ms = [gen.message(r, maxlen=64) for _ in range(r.randint(1, 12))]
        data = b"".join(bytes(m.build()) for m in ms)
        bad_at = None
        if r.random() < 0.3:
            # corrupt the header of message j: exactly the first j are delivered
            j = r.randrange(len(ms))
            off = sum(len(m.payload) + 16 for m in ms[:j])
            d = bytearray(data)
            d[off + 12] = 7
            data = bytes(d)
            bad_at = j
        rec = Recorder()
        rec.datagram_received(data, ("10.0.0.9", 30490), False)
        got = [conv.s_msg(m) for m in rec.got]
        expect = [conv.s_msg(m) for m in (ms if bad_at is None else ms[:bad_at])]
        if got != expect:
            ctx.violation("datagram_received did not deliver exactly the concatenated messages in order", dict(datagram=data.hex()[:4000], delivered=len(got), expected=len(expect)))
        cases.append((103, data))
        impl.append([got, None if bad_at is None else [1]])
        descr.append(("datagram", k))
        ctx.case(("dg", data), kind="datagram-%s" % ("clean" if bad_at is None else "corrupted"))
    # one protocol object, several datagrams of several senders, messages drawn from a SMALL pool: identical messages and
    # messages repeating the ids of the previous one (other payload / return code / type) follow each other
    import random
    r2 = random.Random(ctx.seed * 7919 + 1)       # a stream of its own: the cases above stay what they were
    for k in range(150 if quick else 4000):
        base = gen.message(r2, maxlen=24)
        pool = [base]
        for _ in range(r2.randint(1, 3)):
            c = r2.random()
            if c < 0.3:
                pool.append(base)
            elif c < 0.5:
                pool.append(H.SOMEIPHeader(base.service_id, base.method_id, base.client_id, base.session_id, base.interface_version, base.message_type, 1,
                                           base.return_code, bytes(r2.getrandbits(8) for _ in range(r2.randint(0, 9)))))
            elif c < 0.65:
                pool.append(H.SOMEIPHeader(base.service_id, base.method_id, base.client_id, base.session_id, base.interface_version, base.message_type, 1,
                                           r2.choice(list(H.SOMEIPReturnCode)), base.payload))
            elif c < 0.8:
                pool.append(H.SOMEIPHeader(base.service_id, base.method_id, base.client_id, base.session_id, base.interface_version,
                                           r2.choice(list(H.SOMEIPMessageType)), 1, base.return_code, base.payload))
            else:
                pool.append(gen.message(r2, maxlen=24))
        rec = Recorder()
        senders = [("10.0.0.9", 30490), ("10.0.0.9", 30491), ("2001:db8::7", 30490, 0, 0)]
        for _ in range(r2.randint(1, 4)):
            ms = [r2.choice(pool) for _ in range(r2.randint(1, 5))]
            data = b"".join(bytes(m.build()) for m in ms)
            before = len(rec.got)
            rec.datagram_received(data, r2.choice(senders[:2] if r2.random() < 0.8 else senders), r2.random() < 0.2)
            got = [conv.s_msg(m) for m in rec.got[before:]]
            expect = [conv.s_msg(m) for m in ms]
            if got != expect:
                ctx.violation("datagram_received did not deliver exactly the concatenated messages in order (repeated messages / ids, one protocol object)",
                              dict(datagram=data.hex()[:4000], delivered=len(got), expected=len(expect), earlier_messages=before))
            cases.append((103, data))
            impl.append([got, None])
            descr.append(("datagram-seq", k))
            ctx.case(("dgs", k, before, data), kind="datagram-repeats")
    # MANY messages in one datagram (a 1472-byte frame holds 92 header-only messages; nothing bounds the count)
    for n_msgs_dg in ([63, 64, 65, 92, 200] if quick else [63, 64, 65, 66, 92, 128, 200, 1000, 4000]):
        for variant in range(2):
            ms = [gen.message(r2, maxlen=0 if variant == 0 else 6) for _ in range(n_msgs_dg)]
            data = b"".join(bytes(m.build()) for m in ms)
            rec = Recorder()
            rec.datagram_received(data, ("10.0.0.9", 30490), variant == 1)
            got = [conv.s_msg(m) for m in rec.got]
            if got != [conv.s_msg(m) for m in ms]:
                ctx.violation("datagram_received did not deliver exactly the concatenated messages in order (many messages in one datagram)",
                              dict(messages=n_msgs_dg, delivered=len(got), datagram=data.hex()[:2000]))
            if n_msgs_dg <= 200:
                cases.append((103, data))
                impl.append([got, None])
                descr.append(("datagram-many", n_msgs_dg))
            ctx.case(("dgm", n_msgs_dg, variant, data[:64]), kind="datagram-many-messages")
    outs = compare(ctx, cases, impl, "SOMEIPHeader build/parse/datagram loop differs from Model/Someip.v", lambda i: repr(descr[i]))
    # layout: implementation bytes versus the extracted Gallina spec_layout
    lay = ctx.model.batch([(111, sm) for _, sm, _ in layout_cases])
    for (i, sm, b), l in zip(layout_cases, lay):
        if l != sexp.dumps(b):
            ctx.violation("build(m) differs from the SOME/IP wire layout", dict(message=sexp.dumps(sm)[:2000], implementation=b.hex()[:400], layout=l[:400]))
    ctx.notes["layout_judged_cases"] = len(layout_cases)
    incoq_crosscheck(ctx, cases, outs, limit=150 if quick else 500)
