"""C10 - offer lifecycle: wait, repetition and cyclic phases; nothing follows a StopOffer."""
import asyncio
import random

import someip.config as C
import someip.header as H
import someip.sd as S
import someip.service as V

from .. import scen, stackprop

CODES = {1: "multicast offers do not follow the initial-delay / repetition / cyclic schedule", 2: "an offer entry differs from the service's configured ids / TTL / options",
         3: "not exactly one StopOffer after a stop that followed an offer", 4: "something was sent for a cyclic instance stopped before its first offer",
         5: "an offer with non-zero TTL was sent after the StopOffer (before the next start)", 6: "stopping an already stopped announcer raised", 98: "a transmitted datagram did not decode"}


def simple_service_stop_announce():
    """SimpleService.start_announce then stop_announce on a real announcer: must succeed without error."""
    loop = asyncio.new_event_loop()
    asyncio.set_event_loop(loop)
    try:
        async def go():
            prot = S.ServiceDiscoveryProtocol(("224.224.224.245", 30490), timings=S.Timings(CYCLIC_OFFER_DELAY=0, INITIAL_DELAY_MAX=0, REPETITIONS_MAX=0, SEND_COLLECTION_TIMEOUT=0))
            prot.log.disabled = True

            class T:
                def sendto(self, data, addr=None):
                    pass

                def get_extra_info(self, key):
                    return ("192.0.2.42", 30501)
            prot.transport = T()

            class Svc(V.SimpleService):
                service_id = 0x4242
                version_major = 1
                version_minor = 0
            svc = Svc(1)
            svc.log.disabled = True
            svc.transport = T()
            prot.announcer.start()
            svc.start_announce(prot.announcer)
            await asyncio.sleep(0)
            try:
                svc.stop_announce(prot.announcer)
            except Exception as exc:  # noqa: BLE001
                return type(exc).__name__
            finally:
                prot.announcer.stop()
                await asyncio.sleep(0)
            return None
        return loop.run_until_complete(go())
    finally:
        asyncio.set_event_loop(None)
        loop.close()


def directed_moved_endpoint(r):
    """A service is withdrawn and announced again with the same ids and OTHER options (it moved to another port / protocol):
    every offer, find answer and StopOffer carries the options of the instance that sends it."""
    from .. import conv
    T, MS = scen.T, scen.MS
    cfg = list(scen.timings(r))
    cfg[4] = r.choice([0, 1, 2])
    cfg[5] = r.choice([10 * MS, T // 8])
    cfg[6] = r.choice([0, T // 2, T])
    cfg[11] = r.choice([0, 5 * MS])
    a = C.Service(0x1111, 1, 1, 7, eventgroups=frozenset({5, 6}), options_1=(scen.ep_opt(8, 5001),))
    b = C.Service(0x1111, 1, 1, 7, eventgroups=frozenset({5, 6}),
                  options_1=(scen.ep_opt(8, r.choice([5001, 5002]), tcp=r.random() < 0.5),) if r.random() < 0.8 else (),
                  options_2=(scen.ep_opt(9, 5003),) if r.random() < 0.3 else ())
    if (b.options_1, b.options_2) == (a.options_1, a.options_2):
        b = C.Service(0x1111, 1, 1, 7, eventgroups=frozenset({5, 6}), options_1=(scen.ep_opt(8, 5002),))
    insts = [(1, conv.s_service(a), []), (2, conv.s_service(b), [])]
    d0 = r.choice([cfg[0], cfg[1]])
    peers = {1: scen.Peer(1)}
    events = [(0, (1, [17, 1])), (0, (1, [0]))]
    t1 = d0 + r.choice([T // 4, T, 2 * T])
    events.append((t1, (1, [18, 1, True])))
    t2 = t1 + r.choice([0, 1, T // 4, T])
    events.append((t2, (1, [17, 2])))
    for _ in range(r.randint(1, 3)):
        tf = r.choice([t1 - T // 8, t2 + d0 + T // 8, t2 + d0 + T, t2 + 2 * T])
        events.append((max(1, tf), (0, 1, r.random() < 0.4, peers[1].datagram([C.Service(0x1111).create_find_entry(3)], False))))
    if r.random() < 0.5:
        events.append((t2 + 3 * T, (1, [r.choice([16, 1])])))
    events.sort(key=lambda e: e[0])
    return dict(cfg=tuple(cfg), insts=insts, draws=[d0] * 64, events=events, end=t2 + 5 * T, rev=r.random() < 0.3, fuel=20000)


def own_timings_direct(ctx, n):
    """A ServiceInstance whose OWN Timings object differs from the announcer's in whether offers are cyclic (and in the
    announce TTL): its lifecycle follows ITS timings - offers with its TTL, exactly one StopOffer after a stop that followed an
    offer, nothing at all when it is stopped during its initial wait.  Judged directly on the real stack (the model has one
    configuration), on the virtual-time loop."""
    from .. import conv, sim
    T, MS = scen.T, scen.MS
    r = random.Random(ctx.seed * 7919 + 310)
    for k in range(n):
        base = [10 * MS, 10 * MS, 0, 0, r.choice([0, 1, 2]), T // 8, 0, 1, 3, 5, None, r.choice([0, 5 * MS])]
        prot_cfg, inst_cfg = list(base), list(base)
        cyc_inst = r.random() < 0.5
        inst_cfg[6], prot_cfg[6] = (T // 2, 0) if cyc_inst else (0, T // 2)
        inst_cfg[8] = r.choice([3, 7])
        reps_end = 10 * MS + sum((1 << i) * (T // 8) for i in range(base[4]))
        when = r.choice(["initial-wait", "after-repetitions", "later"])
        t_stop = {"initial-wait": 5 * MS, "after-repetitions": reps_end + T // 16, "later": reps_end + 2 * T}[when]
        how = r.choice([[16], [18, 1, True], [1]])
        sc = dict(cfg=tuple(prot_cfg), insts=[(1, conv.s_service(scen.SERVICES[0]), [])], inst_cfg={1: tuple(inst_cfg)}, draws=[10 * MS] * 16,
                  events=[(0, (1, [17, 1])), (0, (1, [0])), (t_stop, (1, how))], end=t_stop + 2 * T, rev=False, fuel=20000)
        tr, completed, _ = sim.run_impl(sc)
        offers, stops = [], []
        for t, ev in tr:
            if ev[0] != 0:
                continue
            msg, _ = H.SOMEIPHeader.parse(bytes(ev[2]))
            sd = H.SOMEIPSDHeader.parse(msg.payload)[0].resolve_options()
            for e in sd.entries:
                if e.sd_type == H.SOMEIPSDEntryType.OfferService:
                    (stops if e.ttl == 0 else offers).append((t, ev[1], e.ttl))
        # a NON-cyclic instance sends its StopOffer from stop() itself, also during the initial wait (not judged: the property
        # speaks of cyclic instances there)
        want_stops = (0 if cyc_inst else None) if when == "initial-wait" else 1
        bad = []
        if want_stops is not None and len(stops) != want_stops:
            bad.append("%d StopOffer entries, expected %d" % (len(stops), want_stops))
        if when == "initial-wait" and offers:
            bad.append("offers although stopped during the initial wait")
        if when != "initial-wait" and not offers:
            bad.append("no offer before the stop")
        if any(ttl != inst_cfg[8] for _, _, ttl in offers):
            bad.append("an offer does not carry the instance's announce TTL")
        if stops and offers and min(s[0] for s in stops) < max(o[0] for o in offers):
            bad.append("an offer after the StopOffer")
        if bad:
            ctx.violation("an instance with timings of its own: " + "; ".join(bad),
                          dict(protocol_cfg=prot_cfg, instance_cfg=inst_cfg, stop_at=t_stop, stop_by=how, offers=len(offers), stop_offers=len(stops)))
        ctx.case(("own-timings", k, cyc_inst, when, tuple(how)), kind="instance-own-timings-" + when)


def run(ctx):
    r = ctx.rng
    quick = ctx.tier == "quick"
    ctx.rule = ("timing grid (initial-delay window, repetitions 0-4, base delay, cyclic period or none, TTL finite/infinite, collection timeout 0/1 tick/5 ms) x "
                "1-3 instances x announcer stop/start, stop_announce/announce, protocol stop/start, connection loss at phase boundaries +-1 tick and anywhere x "
                "FindService (unicast/multicast) and Subscribe traffic; complete traces compared with the model; implementation trace judged by check_C10; plus "
                "a service withdrawn and announced again with the same ids and other options; an instance whose own Timings differ from the announcer's (cyclic or not, announce TTL), judged directly; SimpleService.start_announce/stop_announce against a real announcer; non-trivial = distinct scenario with at least one transmission")
    ctx.assumptions = ["an instance is announced at most once at a time", "schedule clauses are judged when the oracle draws are all equal (otherwise only the model comparison applies)"]
    n = 300 if quick else 10000
    scs = stackprop.corpus_scenarios("C10") + [scen.server_scenario(r) if k % 2 else scen.lifecycle_scenario(r) for k in range(n)]
    r2 = random.Random(ctx.seed * 7919 + 10)      # a stream of its own: the scenarios above stay what they were
    scs += [directed_moved_endpoint(r2) for _ in range(30 if quick else 1000)]
    stackprop.run_scenarios(ctx, scs, 3010, CODES, known_codes={15: "F15"}, what="offer lifecycle")
    own_timings_direct(ctx, 30 if quick else 600)
    exc = simple_service_stop_announce()
    ctx.case("simple-service-stop-announce", kind="simple-service-helper")
    if exc is not None:
        if exc == "ValueError":
            ctx.known_hit("F11")
        else:
            ctx.violation("SimpleService.stop_announce after start_announce raised", dict(exception=exc))


def replay(ctx, rp):
    return stackprop.replay(ctx, rp, 3010)
