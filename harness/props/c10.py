"""C10 - offer lifecycle: wait, repetition and cyclic phases; nothing follows a StopOffer."""
import asyncio

import someip.config as C
import someip.header as H
import someip.sd as S
import someip.service as V

from .. import scen, stackprop

CODES = {1: "multicast offers do not follow the initial-delay / repetition / cyclic schedule", 2: "an offer entry differs from the service's configured ids / TTL / options",
         3: "not exactly one StopOffer after a stop that followed an offer", 4: "something was sent for a cyclic instance stopped before its first offer",
         5: "an offer with non-zero TTL was sent after the StopOffer (before the next start)", 6: "stopping an already stopped announcer raised", 98: "a transmitted datagram did not decode"}


def simple_service_stop_announce():
    """SimpleService.start_announce then stop_announce on a real announcer: must succeed without error."""
    loop = asyncio.new_event_loop()
    asyncio.set_event_loop(loop)
    try:
        async def go():
            prot = S.ServiceDiscoveryProtocol(("224.224.224.245", 30490), timings=S.Timings(CYCLIC_OFFER_DELAY=0, INITIAL_DELAY_MAX=0, REPETITIONS_MAX=0, SEND_COLLECTION_TIMEOUT=0))
            prot.log.disabled = True

            class T:
                def sendto(self, data, addr=None):
                    pass

                def get_extra_info(self, key):
                    return ("192.0.2.42", 30501)
            prot.transport = T()

            class Svc(V.SimpleService):
                service_id = 0x4242
                version_major = 1
                version_minor = 0
            svc = Svc(1)
            svc.log.disabled = True
            svc.transport = T()
            prot.announcer.start()
            svc.start_announce(prot.announcer)
            await asyncio.sleep(0)
            try:
                svc.stop_announce(prot.announcer)
            except Exception as exc:  # noqa: BLE001
                return type(exc).__name__
            finally:
                prot.announcer.stop()
                await asyncio.sleep(0)
            return None
        return loop.run_until_complete(go())
    finally:
        asyncio.set_event_loop(None)
        loop.close()


def run(ctx):
    r = ctx.rng
    quick = ctx.tier == "quick"
    ctx.rule = ("timing grid (initial-delay window, repetitions 0-4, base delay, cyclic period or none, TTL finite/infinite, collection timeout 0/1 tick/5 ms) x "
                "1-3 instances x announcer stop/start, stop_announce/announce, protocol stop/start, connection loss at phase boundaries +-1 tick and anywhere x "
                "FindService (unicast/multicast) and Subscribe traffic; complete traces compared with the model; implementation trace judged by check_C10; plus "
                "SimpleService.start_announce/stop_announce against a real announcer; non-trivial = distinct scenario with at least one transmission")
    ctx.assumptions = ["an instance is announced at most once at a time", "schedule clauses are judged when the oracle draws are all equal (otherwise only the model comparison applies)"]
    n = 300 if quick else 10000
    scs = stackprop.corpus_scenarios("C10") + [scen.server_scenario(r) if k % 2 else scen.lifecycle_scenario(r) for k in range(n)]
    stackprop.run_scenarios(ctx, scs, 3010, CODES, known_codes={15: "F15"}, what="offer lifecycle")
    exc = simple_service_stop_announce()
    ctx.case("simple-service-stop-announce", kind="simple-service-helper")
    if exc is not None:
        if exc == "ValueError":
            ctx.known_hit("F11")
        else:
            ctx.violation("SimpleService.stop_announce after start_announce raised", dict(exception=exc))


def replay(ctx, rp):
    return stackprop.replay(ctx, rp, 3010)
