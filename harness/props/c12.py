"""C12 - FindService is answered only by matching, ready instances, by unicast, in time."""
import someip.config as C

import random

from .. import conv, scen, stackprop

CODES = {1: "number of unicast answers differs from the number of FindService entries a ready, matching instance had to answer",
         2: "an answer was sent outside the allowed window or to somebody who did not ask", 3: "an answer differs from the instance's configured offer",
         4: "an answer left while the instance was in its initial wait phase or stopped", 98: "a transmitted datagram did not decode"}


SHARED = [C.Service(0x1111, 1, 1, 7), C.Service(0x1111, 1, 2, 7), C.Service(0x1111, 1, 1, 8), C.Service(0x1111, 2, 1, 7)]
SHARED_FILTERS = [C.Service(0x1111, 1), C.Service(0x1111, 1, 0xFF, 7), C.Service(0x1111, 1, 1), C.Service(0x1111, 0xFFFF, 2),
                  C.Service(0x1111, 1, 2, 7), C.Service(0x1111), C.Service(0x1111, 2), C.Service(0x1111, 1, 1, 8)]


def shared_ids_scenario(r):
    """Instances that share service id AND instance id and differ only in their versions: a FindService naming the instance
    and wildcarding a version must be answered by every one of them."""
    T = scen.T
    cfg = list(scen.timings(r))
    n = r.choice([2, 3, 3, 4])
    svcs = r.sample(SHARED, n)
    insts = [(i + 1, conv.s_service(s), []) for i, s in enumerate(svcs)]
    d0 = r.choice([cfg[0], cfg[1]])
    drr = r.choice([cfg[2], cfg[3]])
    d = r.choice([d0, drr])
    draws = [d] * 64
    d0 = max(cfg[0], min(cfg[1], d))
    events = [(0, (1, [17, i + 1])) for i in range(n)] + [(0, (1, [0]))]
    peers = {a: scen.Peer(a) for a in (1, 2)}
    raw = []
    for _ in range(r.randint(1, 5)):
        t = d0 + r.choice([1, cfg[5], r.randrange(1, 3 * T)])
        a = r.choice([1, 2])
        raw.append((t, a, r.random() < 0.4, r.choice(SHARED_FILTERS)))
    if r.random() < 0.3:
        events.append((d0 + r.randrange(1, 2 * T), (1, [18, r.randint(1, n), True])))
    for t, a, mc, f in sorted(raw, key=lambda x: x[0]):
        events.append((t, (0, a, mc, peers[a].datagram([f.create_find_entry(3)], mc))))
    events.sort(key=lambda x: x[0])
    return dict(cfg=tuple(cfg), insts=insts, draws=draws, events=events, end=d0 + 4 * T, rev=r.random() < 0.3, fuel=20000)


def run(ctx):
    r = ctx.rng
    quick = ctx.tier == "quick"
    ctx.rule = ("FindService entries over ids/versions incl. every wildcard combination (6 filters + concrete services), unicast and multicast, at any instant of the "
                "offer lifecycle (initial wait, repetition, cyclic, just stopped, stopped non-cyclic), 1-4 instances incl. instances sharing service and instance id and differing only in a version, request-response windows {0, [10ms,50ms]}, "
                "collection timeouts {0,1 tick,5 ms}; complete traces compared with the model; implementation trace judged by check_C12")
    ctx.assumptions = ["answer clauses are judged when the oracle draws are all equal; a FindService at the very instant of a lifecycle change is not judged (order-dependent)"]
    n = 300 if quick else 10000
    scs = stackprop.corpus_scenarios("C12") + [shared_ids_scenario(r) if k % 3 == 2 else (scen.server_scenario(r) if k % 2 else scen.lifecycle_scenario(r)) for k in range(n)]
    rll = random.Random(ctx.seed * 7919 + 112)     # a stream of its own
    scs += [scen.link_local_twins(rll) for _ in range(30 if quick else 1000)]
    rwi = random.Random(ctx.seed * 7919 + 212)     # a stream of its own
    scs += [scen.wildcard_instance(rwi) for _ in range(30 if quick else 1000)]
    stackprop.run_scenarios(ctx, scs, 3012, CODES, what="find answers")


def replay(ctx, rp):
    return stackprop.replay(ctx, rp, 3012)
