"""C12 - FindService is answered only by matching, ready instances, by unicast, in time."""
from .. import scen, stackprop

CODES = {1: "number of unicast answers differs from the number of FindService entries a ready, matching instance had to answer",
         2: "an answer was sent outside the allowed window or to somebody who did not ask", 3: "an answer differs from the instance's configured offer", 98: "a transmitted datagram did not decode"}


def run(ctx):
    r = ctx.rng
    quick = ctx.tier == "quick"
    ctx.rule = ("FindService entries over ids/versions incl. every wildcard combination (6 filters + concrete services), unicast and multicast, at any instant of the "
                "offer lifecycle (initial wait, repetition, cyclic, just stopped, stopped non-cyclic), 1-3 instances, request-response windows {0, [10ms,50ms]}, "
                "collection timeouts {0,1 tick,5 ms}; complete traces compared with the model; implementation trace judged by check_C12")
    ctx.assumptions = ["answer clauses are judged when the oracle draws are all equal; a FindService at the very instant of a lifecycle change is not judged (order-dependent)"]
    n = 300 if quick else 10000
    scs = stackprop.corpus_scenarios("C12") + [scen.server_scenario(r) if k % 2 else scen.lifecycle_scenario(r) for k in range(n)]
    stackprop.run_scenarios(ctx, scs, 3012, CODES, what="find answers")


def replay(ctx, rp):
    return stackprop.replay(ctx, rp, 3012)
