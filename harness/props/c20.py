"""C20 - decoding canonicalises: decode-encode-decode equals decode."""
import someip.header as H

from .. import conv, gen, sexp
from ..common import compare, incoq_crosscheck


def noncanonical_sd(r):
    """An independent encoder emitting legal but non-canonical SD layouts pysomeip would never emit:
    unshared duplicate options, permuted option array, overlapping runs, unreferenced options,
    index fields with zero counts, non-zero reserved bytes, garbage after a config terminator."""
    pool = gen.option_pool(r, r.randint(0, 6))
    opts = [r.choice(pool) for _ in range(r.randint(0, 10))] if pool else []
    ob = bytearray()
    for o in opts:
        raw = bytearray(o.build())
        if len(raw) > 3 and r.random() < 0.4:
            raw[3] = r.getrandbits(8)  # reserved byte after the type
        if isinstance(o, H.SOMEIPSDConfigOption) and r.random() < 0.4:
            extra = r.randbytes(r.randint(1, 5))  # garbage after the terminating zero
            raw = bytearray((len(raw) - 3 + len(extra)).to_bytes(2, "big")) + raw[2:] + extra
        if type(o) in conv.CLS and r.random() < 0.3:
            raw[3 + (5 if o._family.name == "AF_INET" else 17)] = r.getrandbits(8)  # second reserved byte
        ob += raw
    eb = bytearray()
    for _ in range(r.randint(0, 6)):
        ty = r.choice([0, 1, 6, 7])
        n = len(opts)
        no1 = r.randint(0, min(15, n)); oi1 = r.randint(0, n - no1)
        no2 = r.randint(0, min(15, n)); oi2 = r.randint(0, n - no2)
        if r.random() < 0.2:
            no1 = 0; oi1 = r.randint(0, n)  # index with zero count
        val = ((r.randint(0, 15) << 16) | r.getrandbits(16)) if ty in (6, 7) else r.getrandbits(32)
        eb += bytes([ty, oi1, oi2, (no1 << 4) | no2]) + r.getrandbits(16).to_bytes(2, "big") + r.getrandbits(16).to_bytes(2, "big")
        eb += bytes([r.getrandbits(8)]) + r.choice([0, 3, 0xFFFFFF, r.getrandbits(24)]).to_bytes(3, "big") + val.to_bytes(4, "big")
    flags = r.getrandbits(8)
    return bytes([flags, r.getrandbits(8), r.getrandbits(8), r.getrandbits(8)]) + len(eb).to_bytes(4, "big") + bytes(eb) + len(ob).to_bytes(4, "big") + bytes(ob)


def raw_config_option(r):
    """Configuration option bytes written by hand (not by pysomeip's encoder): items "k=v", "k=" (present but empty value),
    "k" (no value), "k=v=w", an empty key, optional garbage after the terminator."""
    body = bytearray([0])
    for _ in range(r.choice([0, 1, 1, 2, 3, 4])):
        k = gen.cfg_str(r, 12, nonempty=True) if r.random() < 0.95 else ""
        if r.random() < 0.12:
            k += r.choice(["\u00e9", "\u20ac", "\u00fc\u00df", "\U0001f600"])  # valid multi-byte UTF-8: not ASCII, must be rejected (or survive the cycle)
        c = r.random()
        if c < 0.3:
            item = k + "="
        elif c < 0.55:
            item = k
        elif c < 0.9:
            item = k + "=" + gen.cfg_str(r, 10, allow_eq=True)
        else:
            item = k + "==" + gen.cfg_str(r, 4)
        if not item:
            continue
        raw = item.encode("utf-8")
        body += bytes([len(raw)]) + raw
    body.append(0)
    if r.random() < 0.15:
        body += r.randbytes(r.randint(1, 4))
    return (len(body)).to_bytes(2, "big") + bytes([1]) + bytes(body)


def cycle(ctx, what, b, parse, build, conv_v, ops, someip=False, extra=None):
    """decode b; if accepted: encode, decode again, compare.  Records model cases."""
    res = conv.s_res(lambda: parse(b), lambda v: [conv_v(v[0]), bytes(v[1])])
    ctx._cases.append((ops[0], b if extra is None else [b, extra])); ctx._impl.append(res); ctx._descr.append((what, "parse"))
    if res[0] != 0:
        return "rejected-%d" % res[1]
    v, rest = parse(b)
    enc = conv.s_res(lambda: bytes(build(v)))
    ctx._cases.append((ops[1], conv_v(v))); ctx._impl.append(enc); ctx._descr.append((what, "build"))
    if enc[0] != 0:
        ctx.violation(f"{what}: a decoded value could not be encoded again", dict(input=b.hex()[:4000], value=sexp.dumps(conv_v(v))[:3000], error=enc[1]))
        return "accepted"
    b2 = enc[1]
    res2 = conv.s_res(lambda: parse(b2), lambda x: [conv_v(x[0]), bytes(x[1])])
    if res2 != [0, [conv_v(v), b""]]:
        ctx.violation(f"{what}: decode(encode(decode(b))) != decode(b)", dict(input=b.hex()[:4000], value=sexp.dumps(conv_v(v))[:3000], reencoded=b2.hex()[:4000], second=sexp.dumps(res2)[:3000]))
    if someip and b2 + rest != b:
        ctx.violation("SOME/IP: re-encoded bytes differ from the consumed input", dict(input=b.hex()[:4000], reencoded=b2.hex()[:4000]))
    return "accepted"


def run(ctx):
    r = ctx.rng
    quick = ctx.tier == "quick"
    ctx.rule = ("accepted inputs reached (a) by mutating valid SOME/IP messages, SD payloads, SD entries and SD options (bit flips, field corruption, "
                "option types 0x00-0xFF, protocol numbers 0-255, unknown flag bits, non-zero reserved bytes) and (b) by an independent non-canonical "
                "SD encoder in the harness (unshared duplicates, permuted arrays, overlapping runs, unreferenced options, zero-count indexes, garbage "
                "after config terminators) and hand-written configuration options (k=v, k=, k, k=v=w) and hand-written IP options of all kinds of a family for one address / protocol / port, hand-written entries with every single bit of their last word; for every accepted input the implementation's decode/encode/decode cycle is checked and each step "
                "compared with the model; non-trivial = distinct accepted input")
    ctx.assumptions = ["inputs are byte strings; SD entries are decoded with the number of options of their message"]
    ctx._cases, ctx._impl, ctx._descr = [], [], []
    n = 400 if quick else 15000
    for k in range(n):
        # SOME/IP
        b = bytes(gen.message(r, maxlen=64).build()) + gen.suffix(r)
        if r.random() < 0.5:
            b, _ = gen.mutate(r, b, fields=[(4, 4), (12, 1), (14, 1), (15, 1)])
        st = cycle(ctx, "SOME/IP message", b, H.SOMEIPHeader.parse, lambda v: v.build(), conv.s_msg, (102, 101), someip=True)
        ctx.case(("msg", b), nontrivial=st == "accepted", kind="someip-" + st)
        # SD payload: valid+mutated, or non-canonical
        if r.random() < 0.5:
            sb = gen.valid_sd_payload(r)
            if r.random() < 0.6:
                sb, _ = gen.mutate(r, sb, fields=gen.sd_fields(sb))
            src = "mutated"
        else:
            sb = noncanonical_sd(r)
            src = "noncanonical"
        st = cycle(ctx, "SD message", sb, H.SOMEIPSDHeader.parse, lambda v: v.build(), conv.s_sd, (208, 207))
        ctx.case(("sd", sb), nontrivial=st == "accepted", kind=f"sd-{src}-{st}",
                 sample=dict(input=sb.hex()[:200], outcome=st) if k in (1, 2) else None)
        # SD option with any type byte
        o = gen.option(r)
        ob = bytearray(o.build())
        c = r.random()
        if c < 0.3:
            ob[2] = r.getrandbits(8)  # type 0x00..0xFF
        elif c < 0.5 and len(ob) > 3:
            ob[3] = r.getrandbits(8)
        elif c < 0.7:
            ob = bytearray(gen.mutate(r, bytes(ob), fields=[(0, 2), (2, 1)])[0])
        elif c < 0.8 and type(o) in conv.CLS:
            ob[-3] = r.getrandbits(8)  # protocol number 0..255
        ob = bytes(ob) + (r.randbytes(r.randint(0, 3)) if r.random() < 0.3 else b"")
        st = cycle(ctx, "SD option", ob, H.SOMEIPSDOption.parse, lambda v: v.build(), conv.s_opt, (202, 201))
        ctx.case(("opt", ob), nontrivial=st == "accepted", kind="option-" + st)
        ob = raw_config_option(r)
        st = cycle(ctx, "SD option", ob, H.SOMEIPSDOption.parse, lambda v: v.build(), conv.s_opt, (202, 201))
        ctx.case(("opt", ob), nontrivial=st == "accepted", kind="raw-config-option-" + st)
        # SD entry
        nopt = r.choice([0, 1, 5, 255])
        e = gen.entry(r, [], 0)
        e = H.SOMEIPSDEntry(e.sd_type, e.service_id, e.instance_id, e.major_version, e.ttl, e.minver_or_counter,
                            option_index_1=r.randint(0, nopt), option_index_2=r.randint(0, nopt), num_options_1=r.randint(0, 15), num_options_2=r.randint(0, 15))
        ebs = bytes(e.build())
        if r.random() < 0.4:
            ebs, _ = gen.mutate(r, ebs, fields=[(0, 1), (1, 1), (2, 1), (3, 1), (12, 4)])
        st = cycle(ctx, "SD entry", ebs, lambda x: H.SOMEIPSDEntry.parse(x, nopt), lambda v: v.build(), conv.s_entry, (204, 203), extra=nopt)
        ctx.case(("entry", ebs, nopt), nontrivial=st == "accepted", kind="entry-" + st)
    # IP options of ALL kinds of a family with ONE (address, protocol, port), written by hand (no encoder of the library is
    # involved in making the input), one after the other in one process: what one kind leaves behind must not leak into another
    import random
    import struct
    r2 = random.Random(ctx.seed * 7919 + 20)      # a stream of its own: the cases above stay what they were
    for k in range(30 if quick else 600):
        v6 = r2.random() < 0.4
        special6 = [__import__("ipaddress").IPv6Address(x) for x in ("::ffff:192.0.2.1", "::ffff:0.0.0.0", "::ffff:255.255.255.255", "::192.0.2.1", "::fffe:192.0.2.1",
                                                                       "64:ff9b::192.0.2.1", "::1", "fe80::1", "ff02::1")]
        addr = r2.choice((gen.V6 + special6 + special6) if v6 else gen.V4)
        proto = r2.choice([6, 17, 17, 0, 255])
        port = r2.choice([0, 1, 30490, 30501, 0xFFFF, r2.getrandbits(16)])
        kinds = [0x06, 0x16, 0x26] if v6 else [0x04, 0x14, 0x24]
        r2.shuffle(kinds)
        raws = []
        for ty in kinds + ([r2.choice(kinds)] if r2.random() < 0.5 else []):
            body = bytes([0]) + addr.packed + bytes([0, proto]) + struct.pack(">H", port)
            raws.append(struct.pack(">HB", len(body), ty) + body)
        for ob in raws:
            st = cycle(ctx, "SD option", ob, H.SOMEIPSDOption.parse, lambda v: v.build(), conv.s_opt, (202, 201))
            ctx.case(("opt-kinds", k, ob), nontrivial=st == "accepted", kind="ip-option-kinds-one-address-" + st)
        if r2.random() < 0.5:
            # ... and all of them in the option array of one SD message, each referenced by an entry
            eb = b"".join(bytes([1, i, 0, 1 << 4]) + struct.pack(">HHB", 0x1111, 1, 1) + (3).to_bytes(3, "big") + (7).to_bytes(4, "big") for i in range(len(raws)))
            obs = b"".join(raws)
            sb = bytes([0xC0, 0, 0, 0]) + struct.pack(">I", len(eb)) + eb + struct.pack(">I", len(obs)) + obs
            st = cycle(ctx, "SD message", sb, H.SOMEIPSDHeader.parse, lambda v: v.build(), conv.s_sd, (208, 207))
            ctx.case(("sd-kinds", k, sb), nontrivial=st == "accepted", kind="sd-ip-option-kinds-" + st)
    # hand-written entries of every type with each single bit of the last word set on top of a small value (the reserved
    # bits of eventgroup entries): what the decoder accepts, the encoder must take back
    for ty in (0, 1, 6, 7):
        for bit in range(32):
            for base in ((0, 5), (3 << 16, 0x1234)):
                val = (1 << bit) | (base[0] if ty in (6, 7) else 0) | base[1]
                ebs = bytes([ty, 0, 0, 0]) + struct.pack(">HHB", 0x1111, 1, 1) + (3).to_bytes(3, "big") + struct.pack(">I", val & 0xFFFFFFFF)
                st = cycle(ctx, "SD entry", ebs, lambda x: H.SOMEIPSDEntry.parse(x, 0), lambda v: v.build(), conv.s_entry, (204, 203), extra=0)
                ctx.case(("entry-bit", ty, bit, base), nontrivial=st == "accepted", kind="entry-last-word-bit-" + st)
                sb = bytes([0xC0, 0, 0, 0]) + struct.pack(">I", 16) + ebs + struct.pack(">I", 0)
                st = cycle(ctx, "SD message", sb, H.SOMEIPSDHeader.parse, lambda v: v.build(), conv.s_sd, (208, 207))
                ctx.case(("sd-entry-bit", ty, bit, base), nontrivial=st == "accepted", kind="sd-entry-last-word-bit-" + st)
    outs = compare(ctx, ctx._cases, ctx._impl, "decoder/encoder differs from the model", lambda i: repr(ctx._descr[i]))
    incoq_crosscheck(ctx, ctx._cases, outs, limit=100 if quick else 400)
