"""C03 - malformed or foreign input is rejected cleanly and changes nothing."""
import asyncio
import copy
import warnings

import someip.config as C
import someip.header as H
import someip.sd as S
import someip.service as V

from .. import conv, gen, sexp
from ..common import compare, incoq_crosscheck, load_corpus

SD_ADDR = ("224.224.224.245", 30490)
PEER = ("10.0.0.5", 30490)


def nonascii_in_config_text(b: bytes) -> bool:
    """Does the SD-option / SD-payload byte string contain a byte >= 0x80 at all?  (coarse, sound:
    the Unicode error is only allowed when such a byte exists inside configuration text)"""
    return any(x >= 0x80 for x in b)


class Transport:
    def __init__(self):
        self.sent = []

    def sendto(self, data, addr=None):
        self.sent.append((bytes(data), addr))

    def get_extra_info(self, key):
        return ("192.0.2.1", 30501)


class Listener(S.ClientServiceListener, S.ServerServiceListener):
    def __init__(self):
        self.calls = []

    def service_offered(self, service, source):
        self.calls.append(("offered", service, source))

    def service_stopped(self, service, source):
        self.calls.append(("stopped", service, source))

    def client_subscribed(self, sub, source):
        self.calls.append(("subscribed", sub, source))

    def client_unsubscribed(self, sub, source):
        self.calls.append(("unsubscribed", sub, source))


def settle(loop):
    for _ in range(6):
        loop.run_until_complete(asyncio.sleep(0))


def make_stack(loop):
    """A discovery endpoint with some state: one found service, one live subscription, known peers."""
    t = S.Timings(SEND_COLLECTION_TIMEOUT=0, INITIAL_DELAY_MIN=0, INITIAL_DELAY_MAX=0, REPETITIONS_MAX=0, CYCLIC_OFFER_DELAY=0)
    prot = S.ServiceDiscoveryProtocol(SD_ADDR, timings=t)
    for lg in (prot.log, prot.discovery.log, prot.announcer.log, prot.subscriber.log, S.LOG):
        lg.disabled = True
    prot.transport = Transport()
    lst = Listener()
    prot.discovery.watch_all_services(lst)
    svc = C.Service(0x1111, 1, 1, 0, eventgroups=frozenset({5}))
    inst = S.ServiceInstance(svc, lst, prot.announcer, t)
    inst.log.disabled = True
    prot.announcer.announce_service(inst)
    errors = []
    loop.set_exception_handler(lambda l, c: errors.append(c))

    async def go():
        prot.start()
    loop.run_until_complete(go())
    settle(loop)
    offer = C.Service(0x2222, 7, 1, 3).create_offer_entry(0xFFFFFF)
    ep = H.IPv4EndpointOption(address=__import__("ipaddress").IPv4Address("10.0.0.5"), l4proto=H.L4Protocols.UDP, port=4000)
    sub = H.SOMEIPSDEntry(H.SOMEIPSDEntryType.Subscribe, 0x1111, 1, 1, 0xFFFFFF, 5, options_1=(ep,))
    prot.datagram_received(gen.sd_message_bytes(None, H.SOMEIPSDHeader(entries=(offer, sub)), session=1), PEER, False)
    settle(loop)
    return prot, lst, inst, errors


def snapshot(prot, inst):
    def store(ts):
        return {a: {k: (v[0], v[1] is None or not v[1].cancelled()) for k, v in d.items()} for a, d in ts.store.items() if d}
    return (store(prot.discovery.found_services), store(inst.subscriptions), dict(prot.session_storage.incoming), dict(prot.session_storage.outgoing))


def is_sd_notification(data: bytes):
    """Is the first SOME/IP message a decodable SD notification? (None if the datagram holds several messages)"""
    try:
        m, rest = H.SOMEIPHeader.parse(data)
    except H.ParseError:
        return False
    if rest:
        return None
    if (m.service_id, m.method_id, m.interface_version, m.return_code, m.message_type) != (0xFFFF, 0x8100, 1, 0, 2):
        return False
    try:
        H.SOMEIPSDHeader.parse(m.payload)
    except (H.ParseError, UnicodeDecodeError):
        return False
    return True


def run(ctx):
    r = ctx.rng
    quick = ctx.tier == "quick"
    ctx.rule = ("malformed stream: valid SOME/IP messages, SD payloads, SD options and entries with bit flips, byte replacement, truncation, insertion, "
                "region duplication, every length/count/index field set to 0,1,max-1,max,actual+-1, bytes >= 0x80 in configuration text; arbitrary strings "
                "of length 0-2048; fed (a) to every decoder (outcome compared with the model and classified: value+suffix / parse error / incomplete / "
                "unicode-only-with-non-ASCII) and (b) as datagrams to a live ServiceDiscoveryProtocol holding a found service and a subscription, and to "
                "a live SimpleService (also packed frames: several messages in one datagram, SD notifications with configuration options in second or third place): the call must return, and for non-SD-notification datagrams no listener call, no transmission and no change of "
                "found_services / subscriptions / session storage; non-trivial = distinct input")
    ctx.assumptions = ["exception types outside the model's enum map to a code the model never yields, so any foreign exception is a reported difference (differential, not proved)"]
    cases, impl, descr = [], [], []

    def dec(op, b, fn, conv_v, what, extra=None):
        res = conv.s_res(lambda: fn(b), lambda v: [conv_v(v[0]), bytes(v[1])])
        cases.append((op, b if extra is None else [b, extra])); impl.append(res); descr.append(what)
        if res[0] == 0:
            rest = res[1][1]
            if not b.endswith(rest):
                ctx.violation(f"{what}: the unconsumed rest is not a suffix of the input", dict(input=b.hex()[:4000]))
            return "ok"
        code = res[1]
        if code in (1, 2):
            return "parse-error" if code == 1 else "incomplete"
        if code == 3 and nonascii_in_config_text(b) and what != "SOME/IP message":
            return "unicode"
        ctx.violation(f"{what}: decoder raised an exception outside the allowed kinds", dict(input=b.hex()[:4000], error_code=code))
        return "foreign"

    n = 1500 if quick else 60000
    for k in range(n):
        c = r.random()
        if c < 0.15:
            b = r.randbytes(r.choice([0, 1, 2, 3, 8, 11, 12, 15, 16, 17, 40, 300, 2048]))
            kind = "random"
        else:
            b = bytes(gen.message(r, maxlen=40).build()) + gen.suffix(r)
            b, kind = gen.mutate(r, b, fields=[(4, 4), (12, 1), (14, 1), (15, 1)])
        o = dec(102, b, H.SOMEIPHeader.parse, conv.s_msg, "SOME/IP message")
        ctx.case(("m", b), kind=f"someip-{kind}-{o}")
        sb = gen.valid_sd_payload(r) if c >= 0.15 else r.randbytes(r.choice([0, 11, 12, 13, 28, 100, 2048]))
        if c >= 0.15:
            for _ in range(r.choice([1, 1, 2])):
                sb, kind = gen.mutate(r, sb, fields=gen.sd_fields(sb))
        if r.random() < 0.15 and len(sb) > 30:
            i = r.randrange(20, len(sb)); sb = sb[:i] + bytes([r.randint(0x80, 0xFF)]) + sb[i + 1:]
            kind = "nonascii"
        o = dec(208, sb, H.SOMEIPSDHeader.parse, conv.s_sd, "SD message")
        ctx.case(("s", sb), kind=f"sd-{kind}-{o}", sample=dict(input=sb.hex()[:160], outcome=o) if k in (3, 4) else None)
        ob = bytes(gen.option(r).build())
        if r.random() < 0.25 and len(ob) > 6:
            i = r.randrange(4, len(ob)); ob = ob[:i] + bytes([r.randint(0x80, 0xFF)]) + ob[i + 1:]
            kind = "nonascii"
        else:
            ob, kind = gen.mutate(r, ob, fields=[(0, 2), (2, 1), (4, 1)])
        o = dec(202, ob, H.SOMEIPSDOption.parse, conv.s_opt, "SD option")
        ctx.case(("o", ob), kind=f"option-{kind}-{o}")
        nopt = r.choice([0, 1, 17, 255])
        eb = r.randbytes(16) if r.random() < 0.3 else gen.mutate(r, bytes(H.SOMEIPSDEntry(r.choice(list(H.SOMEIPSDEntryType)), 1, 2, 3, 4, 5, option_index_1=0, option_index_2=0, num_options_1=0, num_options_2=0).build()), fields=[(0, 1), (1, 1), (2, 1), (3, 1), (12, 4)])[0]
        o = dec(204, eb, lambda x: H.SOMEIPSDEntry.parse(x, nopt), conv.s_entry, "SD entry", extra=nopt)
        ctx.case(("e", eb, nopt), kind=f"entry-{o}")
    outs = compare(ctx, cases, impl, "decoder outcome differs from the model", lambda i: repr(descr[i]))
    for (op, arg), mine, theirs, what in zip(cases, outs, impl, descr):
        # the model's decoders are proved to accept exactly the encodings of the format: an input they reject is malformed
        if theirs[0] == 0 and mine.startswith("(1 "):
            b = arg if isinstance(arg, (bytes, bytearray)) else arg[0]
            ctx.violation(f"{what}: malformed input was ACCEPTED by the decoder (the format, i.e. the model's decoder, rejects it)",
                          dict(input=bytes(b).hex()[:4000], implementation=sexp.dumps(theirs)[:1500], model=mine[:300]))
    # ---- (b) live endpoints ----
    loop = asyncio.new_event_loop()
    asyncio.set_event_loop(loop)
    try:
        prot, lst, inst, errors = make_stack(loop)
        base_calls = len(lst.calls)
        if base_calls < 2:
            raise RuntimeError("live C03 scenario did not establish its state (found service + subscription)")

        class Svc(V.SimpleService):
            service_id = 0x4242
            version_major = 1
            version_minor = 0
        svc = Svc(1)
        svc.log.disabled = True
        svc.transport = Transport()
        svc.register_method(1, lambda m, a: b"ok")
        corpus = [bytes.fromhex(c["datagram_hex"]) for c in load_corpus("C03")]
        live = []
        for k in range(-len(corpus), 400 if quick else 12000):
            c = r.random()
            if k < 0:
                data = corpus[k + len(corpus)]; kind = "corpus"
            elif c < 0.12:
                data = r.randbytes(r.choice([0, 1, 15, 16, 17, 30, 64, 500, 2048])); kind = "random"
            elif c < 0.3:
                data = bytes(gen.message(r, maxlen=40).build()); kind = "foreign-message"
                if r.random() < 0.5:
                    # an SD-looking header with one wrong field and a valid SD payload
                    m = H.SOMEIPHeader(0xFFFF, 0x8100, 0, 7, 1, H.SOMEIPMessageType.NOTIFICATION, payload=gen.valid_sd_payload(r))
                    f = r.choice(["service_id", "method_id", "interface_version", "message_type", "return_code"])
                    val = {"service_id": 0xFFFE, "method_id": 0x8101, "interface_version": 2, "message_type": H.SOMEIPMessageType.REQUEST, "return_code": H.SOMEIPReturnCode.E_NOT_OK}[f]
                    data = bytes(__import__("dataclasses").replace(m, **{f: val}).build()); kind = "sd-wrong-" + f
            else:
                payload = gen.valid_sd_payload(r)
                payload, kind = gen.mutate(r, payload, fields=gen.sd_fields(payload))
                if r.random() < 0.3 and len(payload) > 30:
                    i = r.randrange(20, len(payload)); payload = payload[:i] + bytes([r.randint(0x80, 0xFF)]) + payload[i + 1:]; kind = "nonascii"
                data = bytes(H.SOMEIPHeader(0xFFFF, 0x8100, 0, r.randint(1, 9), 1, H.SOMEIPMessageType.NOTIFICATION, payload=payload).build())
                if r.random() < 0.2:
                    data, _ = gen.mutate(r, data, fields=[(4, 4)])
            live.append((data, kind))
        # PACKED frames: several SOME/IP messages in one datagram, an SD notification with configuration / endpoint options -
        # valid or corrupted - in second or third place behind a foreign message, an empty SD message or another SD message
        import random
        r2 = random.Random(ctx.seed * 7919 + 3)       # a stream of its own: the datagrams above stay what they were
        for k in range(60 if quick else 2000):
            parts = []
            for j in range(r2.randint(2, 3)):
                c = r2.random()
                if j == 0 and c < 0.4:
                    parts.append(bytes(gen.message(r2, maxlen=12).build()))
                    continue
                if c < 0.5:
                    cfgo = H.SOMEIPSDConfigOption(configs=tuple((gen.cfg_str(r2, 6, nonempty=True), r2.choice([None, "", "v", "a=b"])) for _ in range(r2.randint(0, 3))))
                    ep = H.IPv4EndpointOption(address=__import__("ipaddress").IPv4Address("10.0.0.5"), l4proto=H.L4Protocols.UDP, port=4000)
                    e = r2.choice([C.Service(0x2222, 7, 1, 3, options_1=(cfgo,)).create_offer_entry(3),
                                   H.SOMEIPSDEntry(H.SOMEIPSDEntryType.Subscribe, 0x1111, 1, 1, 3, 5, options_1=(ep, cfgo))])
                    payload = bytes(H.SOMEIPSDHeader(entries=(e,)).assign_option_indexes().build())
                else:
                    payload = gen.valid_sd_payload(r2)
                if r2.random() < 0.5:
                    payload, _ = gen.mutate(r2, payload, fields=gen.sd_fields(payload))
                if r2.random() < 0.3 and len(payload) > 30:
                    i = r2.randrange(20, len(payload)); payload = payload[:i] + bytes([r2.randint(0x80, 0xFF)]) + payload[i + 1:]
                parts.append(bytes(H.SOMEIPHeader(0xFFFF, 0x8100, 0, r2.randint(1, 9), 1, H.SOMEIPMessageType.NOTIFICATION, payload=payload).build()))
            live.append((b"".join(parts), "packed-frame"))
        # the oracle for "is this a decodable SD notification" is the MODEL's decoder (proved sound and complete for the
        # format), not pysomeip's own parser: a datagram the implementation wrongly accepts is then still judged as foreign
        m1 = ctx.model.batch([(102, d) for d, _ in live])
        verdicts = []
        pend = []
        for (d, _), o in zip(live, m1):
            v = sexp.loads(o)
            if v[0] != 0:
                verdicts.append(False); continue
            msg, rest = v[1]
            if rest not in ([], b""):
                verdicts.append(None); continue
            if (msg[0], msg[1], msg[4], msg[5], msg[7]) != (0xFFFF, 0x8100, 1, 2, 0):
                verdicts.append(False); continue
            verdicts.append("sd"); pend.append((len(verdicts) - 1, msg[8] if msg[8] != [] else b""))
        m2 = ctx.model.batch([(208, p) for _, p in pend])
        for (i, _), o in zip(pend, m2):
            verdicts[i] = True if sexp.loads(o)[0] == 0 else False
        for (data, kind), verdict in zip(live, verdicts):
            before = snapshot(prot, inst)
            ncalls, nsent, nerr = len(lst.calls), len(prot.transport.sent), len(errors)
            mc = r.random() < 0.5
            try:
                prot.datagram_received(data, r.choice([PEER, ("10.0.0.6", 30490)]), mc)
                settle(loop)
            except Exception as exc:  # noqa: BLE001
                ctx.violation("discovery endpoint: datagram_received raised", dict(datagram=data.hex()[:6000], multicast=mc, exception=repr(exc)[:300]))
                prot, lst, inst, errors = make_stack(loop)
                ctx.case(("live", data), kind=f"live-{kind}-raised")
                continue
            if len(errors) > nerr:
                ctx.violation("discovery endpoint: exception reached the event loop", dict(datagram=data.hex()[:6000], context=repr(errors[-1])[:400]))
            if verdict is False:
                if len(lst.calls) != ncalls or len(prot.transport.sent) != nsent or snapshot(prot, inst) != before:
                    ctx.violation("a datagram that is not a decodable SD notification had an effect",
                                  dict(datagram=data.hex()[:6000], listener_calls=len(lst.calls) - ncalls, sent=len(prot.transport.sent) - nsent, state_changed=snapshot(prot, inst) != before))
            else:
                # accepted SD traffic may legitimately change state: rebuild the fixture
                if len(lst.calls) != ncalls or len(prot.transport.sent) != nsent or snapshot(prot, inst) != before:
                    prot, lst, inst, errors = make_stack(loop)
            with warnings.catch_warnings():
                warnings.simplefilter("ignore")
                try:
                    svc.datagram_received(data, PEER, mc)
                except Exception as exc:  # noqa: BLE001
                    ctx.violation("service endpoint: datagram_received raised", dict(datagram=data.hex()[:6000], multicast=mc, exception=repr(exc)[:300]))
            ctx.case(("live", data), kind=f"live-{kind}-{'rejected' if verdict is False else 'sd'}")
        # unicast flag clear: entries ignored
        for k in range(40 if quick else 800):
            h = gen.sd_header(r, maxrun=3)
            h = __import__("dataclasses").replace(h, flag_unicast=False, flags_unknown=0)
            try:
                data = gen.sd_message_bytes(r, h, session=r.randint(20, 60000))
            except Exception:  # noqa: BLE001
                continue
            before = snapshot(prot, inst)
            ncalls, nsent = len(lst.calls), len(prot.transport.sent)
            prot.datagram_received(data, ("10.0.0.9", 30490), False)
            settle(loop)
            after = snapshot(prot, inst)
            if len(lst.calls) != ncalls or len(prot.transport.sent) != nsent or after[:2] != before[:2]:
                ctx.violation("entries of an SD message with the unicast flag clear were not ignored", dict(datagram=data.hex()[:6000]))
            ctx.case(("uc", data), kind="live-unicast-flag-clear")
        # ... also when the entries aim at what the endpoint HOLDS: from the peer whose offer and subscription are stored, a
        # StopOffer of exactly that service, a StopSubscribe of exactly that subscription, renewals, finds - flag clear: ignored
        prot, lst, inst, errors = make_stack(loop)
        r5 = random.Random(ctx.seed * 7919 + 303)
        ep = H.IPv4EndpointOption(address=__import__("ipaddress").IPv4Address("10.0.0.5"), l4proto=H.L4Protocols.UDP, port=4000)
        stored_svc = C.Service(0x2222, 7, 1, 3)
        pool = [stored_svc.create_offer_entry(0), stored_svc.create_offer_entry(3), stored_svc.create_offer_entry(0xFFFFFF),
                H.SOMEIPSDEntry(H.SOMEIPSDEntryType.Subscribe, 0x1111, 1, 1, 0, 5, options_1=(ep,)),
                H.SOMEIPSDEntry(H.SOMEIPSDEntryType.Subscribe, 0x1111, 1, 1, 3, 5, options_1=(ep,)),
                C.Service(0x1111).create_find_entry(3), C.Service(0x3333, 1, 1, 0).create_offer_entry(3)]
        session = 2
        for k in range(40 if quick else 800):
            es = tuple(r5.choice(pool) for _ in range(r5.randint(1, 3)))
            data = gen.sd_message_bytes(None, H.SOMEIPSDHeader(entries=es, flag_unicast=False), session=session)
            session += 1
            before = snapshot(prot, inst)
            ncalls, nsent = len(lst.calls), len(prot.transport.sent)
            prot.datagram_received(data, PEER, r5.random() < 0.5)
            settle(loop)
            after = snapshot(prot, inst)
            if len(lst.calls) != ncalls or len(prot.transport.sent) != nsent or after[:2] != before[:2]:
                ctx.violation("entries of an SD message with the unicast flag clear were not ignored (they aim at stored state)",
                              dict(datagram=data.hex()[:6000], listener_calls=[repr(c)[:80] for c in lst.calls[ncalls:]]))
                prot, lst, inst, errors = make_stack(loop)
                session = 2
            ctx.case(("uc-stored", k, data), kind="live-unicast-flag-clear-stored-state")
    finally:
        asyncio.set_event_loop(None)
        loop.close()
    incoq_crosscheck(ctx, cases, outs, limit=100 if quick else 400)
