"""C07 - peer reboot detection, per sender and channel; fan-out to the three components."""
import asyncio
import itertools

import someip.header as H
import someip.sd as S

from .. import gen, sexp
from ..common import compare, incoq_crosscheck

ADDRS = {1: ("10.0.0.1", 30490), 2: ("10.0.0.2", 30490), 3: ("2001:db8::3", 30490, 0, 0), 101: ("10.0.0.1", 30491)}   # 101: the host of 1, another port
IDS = [1, 2, 3, 0x7FFF, 0xFFFE, 0xFFFF]


def impl_history(hist):
    st = S._SessionStorage()
    return [bool(st.check_received(ADDRS[a], bool(mc), bool(f), sid)) for a, mc, f, sid in hist]


def fanout_history(hist):
    """Through a real ServiceDiscoveryProtocol: per message, reboot_detected calls on each component."""
    loop = asyncio.new_event_loop()
    asyncio.set_event_loop(loop)
    try:
        prot = S.ServiceDiscoveryProtocol(("224.224.224.245", 30490))
        prot.log.disabled = True
        calls = {"subscriber": [], "discovery": [], "announcer": []}
        for name in calls:
            comp = getattr(prot, name)
            comp.reboot_detected = (lambda n: (lambda addr: calls[n].append(addr)))(name)
        out = []
        for a, mc, f, sid in hist:
            before = {k: len(v) for k, v in calls.items()}
            sd = H.SOMEIPSDHeader(entries=(), flag_reboot=bool(f))
            msg = H.SOMEIPHeader(H.SD_SERVICE, H.SD_METHOD, 0, sid, 1, H.SOMEIPMessageType.NOTIFICATION, payload=bytes(sd.build()))
            prot.datagram_received(bytes(msg.build()), ADDRS[a], bool(mc))
            for _ in range(3):
                loop.run_until_complete(asyncio.sleep(0))
            delta = tuple(len(calls[k]) - before[k] for k in ("subscriber", "discovery", "announcer"))
            ok_addr = all(x == ADDRS[a] for k in calls for x in calls[k][before[k]:])
            out.append((delta, ok_addr))
        return out
    finally:
        asyncio.set_event_loop(None)
        loop.close()


def fanout_bursts(hist, sizes):
    """The same through bursts: consecutive messages of one sender and channel travel in ONE datagram, the datagrams of a
    burst are handed over back to back without a loop iteration in between; per burst the number of reboot_detected
    calls on each component."""
    loop = asyncio.new_event_loop()
    asyncio.set_event_loop(loop)
    try:
        prot = S.ServiceDiscoveryProtocol(("224.224.224.245", 30490))
        prot.log.disabled = True
        calls = {"subscriber": [], "discovery": [], "announcer": []}
        for name in calls:
            comp = getattr(prot, name)
            comp.reboot_detected = (lambda n: (lambda addr: calls[n].append(addr)))(name)
        out = []
        k = 0
        for size in sizes:
            burst = hist[k:k + size]
            k += size
            if not burst:
                break
            before = {c: len(v) for c, v in calls.items()}
            dgs = []          # [(sender, channel, bytes)]
            for a, mc, f, sid in burst:
                sd = H.SOMEIPSDHeader(entries=(), flag_reboot=bool(f))
                raw = bytes(H.SOMEIPHeader(H.SD_SERVICE, H.SD_METHOD, 0, sid, 1, H.SOMEIPMessageType.NOTIFICATION, payload=bytes(sd.build())).build())
                if dgs and dgs[-1][0] == a and dgs[-1][1] == mc:
                    dgs[-1] = (a, mc, dgs[-1][2] + raw)
                else:
                    dgs.append((a, mc, raw))
            for a, mc, data in dgs:
                prot.datagram_received(data, ADDRS[a], bool(mc))
            for _ in range(4):
                loop.run_until_complete(asyncio.sleep(0))
            out.append((len(burst), {c: [x for x in calls[c][before[c]:]] for c in calls}))
        return out
    finally:
        asyncio.set_event_loop(None)
        loop.close()


def run(ctx):
    r = ctx.rng
    quick = ctx.tier == "quick"
    ctx.rule = ("all histories of length <= %d over 2 senders (same host, different ports) x 2 channels x 2 flags x ids {1,2,3,0x7FFF,0xFFFE,0xFFFF} (exhaustive), plus random "
                "histories of length <= 200 over 4 senders (two of them on one host) with random 16-bit ids (0 included with raised probability); each history is run through "
                "_SessionStorage.check_received, compared with the model and judged by the extracted literal specification spec_detect; a sample is "
                "run through a real ServiceDiscoveryProtocol to count reboot_detected calls per component; non-trivial = distinct history" % (2 if quick else 3))
    ctx.exhaustive = True
    ctx.assumptions = ["single-threaded use of _SessionStorage (the model has no lock)"]
    alpha = [(a, mc, f, sid) for a in (1, 101) for mc in (0, 1) for f in (0, 1) for sid in IDS]   # two senders on ONE host, different ports
    hists = [[(1, 0, 1, 0), (1, 0, 1, 0)]]  # the witness of known finding F12 first
    for n in range(1, (2 if quick else 3) + 1):
        if n < 3:
            hists.extend(list(h) for h in itertools.product(alpha, repeat=n))
        else:
            # length 3: fix the first message's sender (symmetry), all else exhaustive
            hists.extend([x, y, z] for x in alpha if x[0] == 1 and x[1] == 0 for y in alpha for z in alpha)
    n_exh = len(hists)
    for k in range(400 if quick else 6000):
        n = r.choice([3, 5, 10, 40, 200]) if r.random() < 0.8 else r.randint(1, 200)
        h = []
        for _ in range(n):
            c = r.random()
            sid = 0 if c < 0.04 else r.choice(IDS) if c < 0.4 else r.getrandbits(16)
            if h and r.random() < 0.3:
                sid = min(0xFFFF, h[-1][3] + r.choice([0, 1, 1, 1, 2]))
            h.append((r.choice([1, 1, 2, 3, 101, 101]), r.randint(0, 1), int(r.random() < 0.6), sid))   # 101: another port on the host of sender 1
        hists.append(h)
    cases = [(701, [list(x) for x in h]) for h in hists]
    impl = [impl_history(h) for h in hists]
    outs = compare(ctx, cases, impl, "_SessionStorage.check_received differs from Model/Session.v", lambda i: repr(hists[i])[:500])
    spec = ctx.model.batch([(702, c[1]) for c in cases])
    f12 = ctx.model.batch([(703, c[1]) for c in cases])
    for i, h in enumerate(hists):
        want = sexp.loads(spec[i])
        fpos = sexp.loads(f12[i])
        got = [int(b) for b in impl[i]]
        for j, (g, w) in enumerate(zip(got, want)):
            if g != w:
                if fpos[j]:
                    ctx.known_hit("F12")
                else:
                    ctx.violation("reboot detection differs from the property", dict(history=h[: j + 1], position=j, implementation=bool(g), expected=bool(w)))
                    break
        ctx.case(tuple(h), kind="exhaustive" if i < n_exh else "random", nontrivial=len(h) > 1,
                 sample=dict(history=h[:6], detected=got[:6]) if i in (5, n_exh + 1) else None)
    # fan-out: each detection reaches each of the three components exactly once, a non-detection never
    sample = [hists[0]] + r.sample(hists[1:n_exh], 60 if quick else 600) + [h[:40] for h in hists[n_exh:n_exh + (40 if quick else 400)]]
    for h in sample:
        fo = fanout_history(h)
        det = impl_history(h)
        for j, ((delta, ok_addr), d) in enumerate(zip(fo, det)):
            want = (1, 1, 1) if d else (0, 0, 0)
            if delta != want or not ok_addr:
                ctx.violation("reboot detection did not reach each component exactly once", dict(history=h[: j + 1], position=j, detected=d, calls_subscriber_discovery_announcer=list(delta)))
                break
        ctx.case(("fanout", tuple(h)), kind="fanout")
        # ... and in bursts (several messages per datagram, datagrams back to back): every detection still reaches every component
        sizes = [r.choice([1, 2, 3]) for _ in range(len(h))]
        k = 0
        for n_msgs, got in fanout_bursts(h, sizes):
            want = sorted(ADDRS[a] for (a, mc, f, sid), d in zip(h[k:k + n_msgs], det[k:k + n_msgs]) if d)
            if any(sorted(got[c]) != want for c in got):
                ctx.violation("reboot detections of a burst (several SD messages in one datagram / datagrams handed over back to back) did not reach each component exactly once each",
                              dict(history=h[: k + n_msgs], burst_start=k, burst_length=n_msgs, expected_calls_per_component=len(want),
                                   calls={c: len(v) for c, v in got.items()}))
                break
            k += n_msgs
        ctx.case(("fanout-bursts", tuple(h), tuple(sizes)), kind="fanout-bursts")
    incoq_crosscheck(ctx, cases, outs, limit=150 if quick else 500)
