"""C08 - outgoing session ids count 1..0xFFFF per destination; reboot flag clears on wrap."""
import someip.header as H
import someip.sd as S
import someip.service as V

from .. import conv, scen, sexp, sim, stackprop
from ..common import compare, incoq_crosscheck

CODES = {1: "the destinations of the transmitted messages differ from the non-empty send requests (an empty send transmitted something, or a send was lost)",
         2: "session id / reboot flag sequence of a destination differs from 1,2,..,0xFFFF,1,.. with the flag set exactly before the first wrap", 98: "a transmitted datagram did not decode"}


def send_scenario(r, total, wrap_dest=None):
    cfg = (0, 0, 0, 0, 0, 0, 0, 3, 3, 5, None, 0)
    e = conv.s_entry(scen.SERVICES[0].create_find_entry(3))
    dests = [None, [1], [2], [3], [4], [101], [102]]      # 101/102: another port on the host of 1/2
    events = []
    t = 0
    for k in range(total):
        d = r.choice(dests)
        es = [] if r.random() < 0.1 else [e]
        if r.random() < 0.3:
            t += 1
        events.append((t, (1, [20, es, d])))
    return dict(cfg=cfg, insts=[], draws=[], events=events, end=t + 10, rev=False, fuel=200000)


def wrap_scenario(r, wraps, main):
    """Walks destination `main` across `wraps` wrap-arounds (counted in NON-EMPTY sends), other destinations and empty
    sends interleaved; afterwards destinations [5], [6] are contacted for the first time."""
    cfg = (0, 0, 0, 0, 0, 0, 0, 3, 3, 5, None, 0)
    e = conv.s_entry(scen.SERVICES[0].create_find_entry(3))
    others = [d for d in [None, [1], [2], [3], [4]] if d != main]
    events = []
    t = 0
    sent_main = 0
    target = 65535 * wraps + 40
    while sent_main < target:
        c = r.random()
        d = main if c < 0.97 else r.choice(others)
        es = [] if r.random() < 0.03 else [e]
        if d == main and es and (sent_main % 65535 >= 65529 or sent_main % 65535 <= 3):
            # an EMPTY send in every state around the wrap (next id 0xFFFA .. 0xFFFF, 1 .. 4): it consumes nothing
            events.append((t, (1, [20, [], main])))
        if d == main and es:
            sent_main += 1
        if r.random() < 0.3:
            t += 1
        events.append((t, (1, [20, es, d])))
    for k in range(60):
        d = r.choice([[5], [6], main, None])
        t += 1
        events.append((t, (1, [20, [] if r.random() < 0.1 else [e], d])))
    return dict(cfg=cfg, insts=[], draws=[], events=events, end=t + 10, rev=False, fuel=400000)


def reboot_interleaved(r):
    """Sends to peers 1 and 2 and the multicast group while those peers reveal reboots (empty SD messages with reboot
    evidence, unicast and multicast): what we RECEIVE must never disturb the ids we SEND."""
    cfg = (0, 0, 0, 0, 0, 0, 0, 3, 3, 5, None, 0)
    e = conv.s_entry(scen.SERVICES[0].create_find_entry(3))
    peers = {1: scen.Peer(1), 2: scen.Peer(2)}
    events = []
    t = 0
    for k in range(r.randint(6, 40)):
        t += r.choice([0, 1, 1])
        c = r.random()
        if c < 0.6:
            events.append((t, (1, [20, [] if r.random() < 0.1 else [e], r.choice([None, [1], [1], [2]])])))
        else:
            a = r.choice([1, 2])
            if r.random() < 0.5:
                peers[a].reboot()
            mc = r.random() < 0.3
            events.append((t, (0, a, mc, peers[a].datagram([], mc))))
    return dict(cfg=cfg, insts=[], draws=[], events=events, end=t + 10, rev=False, fuel=200000)


def notify_ids(n_per_dest, dests=2):
    """SimpleEventgroup._notify_single: per-destination ids of notification traffic (real service object)."""
    import asyncio
    import ipaddress
    loop = asyncio.new_event_loop()
    asyncio.set_event_loop(loop)
    try:
        async def fake_gai(host, port, **kw):
            return [(None, None, None, None, (host, port))]
        loop.getaddrinfo = fake_gai
        sent = []

        class T:
            def sendto(self, data, addr=None):
                sent.append((bytes(data), addr))

            def get_extra_info(self, key):
                return ("192.0.2.1", 30501)

        async def go():
            class Svc(V.SimpleService):
                service_id = 0x4242
                version_major = 1
                version_minor = 0
            svc = Svc(1)
            svc.log.disabled = True
            svc.transport = T()
            eg = V.SimpleEventgroup(svc, 5)
            eg.log.disabled = True
            eg.values[1] = b"x"
            eg.values[2] = b"yz"
            # a second eventgroup of the SAME service with the same subscribers: the ids count per destination, not per group
            eg2 = V.SimpleEventgroup(svc, 6)
            eg2.log.disabled = True
            eg2.values[1] = b"pq"
            eg2.values[2] = b""
            eps = [H.IPv4EndpointOption(address=ipaddress.IPv4Address("10.0.0.1"), l4proto=H.L4Protocols.UDP, port=4000 + k) for k in range(dests)]   # one host, two ports
            used = {id(ep): 0 for ep in eps}
            for k in range(n_per_dest):
                for ep in eps[: 1 if k % 3 else dests]:
                    # one, two or three notifications packed into one datagram; close to the wrap single events until two
                    # ids are left, then three events in one datagram: every destination has a datagram that STRADDLES its wrap
                    rem = 65535 - used[id(ep)] % 65535
                    evs = [1] if rem in (3, 4, 5) else [2, 1, 1] if rem in (1, 2) else [[1], [1], [1, 2], [2, 1, 1]][k % 4]
                    used[id(ep)] += len(evs)
                    await (eg2 if k % 5 == 2 else eg)._notify_single(ep, evs, "t")
            return eps
        loop.run_until_complete(go())
        per = {}
        for data, addr in sent:
            rest = data
            while rest:          # every message of the datagram
                m, rest = H.SOMEIPHeader.parse(rest)
                per.setdefault(addr, []).append(m.session_id)
        return per
    finally:
        asyncio.set_event_loop(None)
        loop.close()


def notify_overlapping(r, rounds):
    """Several notification bursts (1-4 events each, two eventgroups of one service) for the same subscribers IN FLIGHT AT
    ONCE (asyncio.gather): per destination the ids on the wire still count 1, 2, 3, ... in the order transmitted."""
    import asyncio
    import ipaddress
    loop = asyncio.new_event_loop()
    asyncio.set_event_loop(loop)
    try:
        async def fake_gai(host, port, **kw):
            return [(None, None, None, None, (host, port))]
        loop.getaddrinfo = fake_gai
        sent = []

        class T:
            def sendto(self, data, addr=None):
                sent.append((bytes(data), addr))

            def get_extra_info(self, key):
                return ("192.0.2.1", 30501)

        plan = []

        async def go():
            class Svc(V.SimpleService):
                service_id = 0x4242
                version_major = 1
                version_minor = 0
            svc = Svc(1)
            svc.log.disabled = True
            svc.transport = T()
            egs = []
            for g in (5, 6):
                eg = V.SimpleEventgroup(svc, g)
                eg.log.disabled = True
                eg.values[1], eg.values[2], eg.values[3] = b"x", b"yz", b""
                egs.append(eg)
            eps = [H.IPv4EndpointOption(address=ipaddress.IPv4Address("10.0.0.%d" % (1 + k // 2)), l4proto=H.L4Protocols.UDP, port=4000 + k) for k in range(3)]
            # the SAME address and port named by a TCP option: another subscriber option, the same destination on the wire
            eps.append(H.IPv4EndpointOption(address=ipaddress.IPv4Address("10.0.0.1"), l4proto=H.L4Protocols.TCP, port=4000))
            for _ in range(rounds):
                burst = [(r.randrange(2), r.randrange(4) if r.random() < 0.5 else 0, [r.choice([1, 2, 3]) for _ in range(r.randint(1, 4))]) for _ in range(r.randint(2, 5))]
                plan.append(burst)
                await asyncio.gather(*[egs[g]._notify_single(eps[e], evs, "t") for g, e, evs in burst])
        loop.run_until_complete(go())
        per = {}
        for data, addr in sent:
            rest = data
            while rest:
                m, rest = H.SOMEIPHeader.parse(rest)
                per.setdefault(addr, []).append(m.session_id)
        return per, plan
    finally:
        asyncio.set_event_loop(None)
        loop.close()


def run(ctx):
    r = ctx.rng
    quick = ctx.tier == "quick"
    ctx.rule = ("interleavings of send_sd to the multicast group and 4 unicast peers with ~10% empty sends (and an empty send in every state within six ids of a wrap), including one run that walks one destination across the "
                "received SD messages that reveal peer reboots interleaved with the sends (what is received must not disturb the ids sent), the 0xFFFF wrap-around and then contacts new destinations for the first time (quick: one wrap = 65535+ sends; thorough: the complete 2 x 65535 cycle, multicast and unicast) by issuing the sends, decoding every "
                "transmitted datagram; the same for SimpleEventgroup._notify_single with two subscribers across a wrap; several notification bursts of two eventgroups in flight at once; assign_outgoing compared with the model over long "
                "destination sequences; implementation trace judged by check_C08; non-trivial = distinct scenario")
    ctx.assumptions = ["calls from the loop thread only (the outgoing_lock is not modelled)", "entry lists are encodable (an encoding failure after the id was taken consumes the id: observation O1)"]
    scs = [send_scenario(r, r.randint(1, 60)) if k % 3 else reboot_interleaved(r) for k in range(60 if quick else 2000)]
    scs.append(wrap_scenario(r, 1 if quick else 2, [1]))
    if not quick:
        scs.append(wrap_scenario(r, 2, None))
    stackprop.run_scenarios(ctx, scs, 3008, CODES, what="session ids")
    # assign_outgoing directly (long sequences, cheap)
    cases, impl = [], []
    for k in range(20 if quick else 300):
        st = S._SessionStorage()
        n = r.choice([10, 1000, 70000]) if k < 3 else r.randint(1, 3000)
        ds = [r.choice([None, 1, 2, 3, 101]) if r.random() < 0.25 else 1 for _ in range(n)]
        ds = [7 if (i > 66000 and i % 50 == 0) else d for i, d in enumerate(ds)]  # first contact after another destination's wrap
        out = [st.assign_outgoing(None if d is None else sim.addr_of(d)) for d in ds]
        cases.append((801, [None if d is None else [d] for d in ds]))
        impl.append([[bool(f), i] for f, i in out])
        ctx.case(("assign", tuple(ds[:50]), n), kind="assign_outgoing")
    compare(ctx, cases, impl, "_SessionStorage.assign_outgoing differs from Model/Session.v", lambda i: "sequence %d" % i)
    # notification traffic: per-destination ids 1,2,... skipping 0 across the wrap
    per = notify_ids(66000 if quick else 132000)
    for addr, ids in per.items():
        want = [((k - 1) % 65535) + 1 for k in range(1, len(ids) + 1)]
        if ids != want:
            k = next(i for i, (a, b) in enumerate(zip(ids, want)) if a != b)
            ctx.violation("notification session ids of one subscriber are not 1,2,..,0xFFFF,1,..", dict(destination=repr(addr), position=k, got=ids[k], expected=want[k]))
        ctx.case(("notify", repr(addr), len(ids)), kind="notify-ids")


    import random
    r2 = random.Random(ctx.seed * 7919 + 8)       # a stream of its own
    per, plan = notify_overlapping(r2, 40 if quick else 1500)
    for addr, ids in per.items():
        want = [((k - 1) % 65535) + 1 for k in range(1, len(ids) + 1)]
        if ids != want:
            k = next(i for i, (a, b) in enumerate(zip(ids, want)) if a != b)
            ctx.violation("notification bursts in flight at once: the session ids one subscriber receives are not 1,2,3,.. in the order transmitted",
                          dict(destination=repr(addr), position=k, got=ids[max(0, k - 3):k + 4], expected=want[max(0, k - 3):k + 4], bursts=plan[:6]))
        ctx.case(("notify-overlap", repr(addr), len(ids)), kind="notify-overlapping-bursts")


def replay(ctx, rp):
    return stackprop.replay(ctx, rp, 3008)
