"""C15 - queued SD entries are sent exactly once, in order, to the right peer, in time."""
import random

from .. import scen, stackprop

CODES = {1: "entries transmitted to a destination differ from the entries queued for it (lost / duplicated / reordered / mixed)",
         2: "an entry left earlier than queued or later than the collection timeout", 3: "zero collection timeout: entries were batched", 98: "a transmitted datagram did not decode"}


def run(ctx):
    r = ctx.rng
    quick = ctx.tier == "quick"
    ctx.rule = ("sequences of queue_send requests for the multicast group and 3 unicast peers, bursts of 1-40 entries, requests exactly when, one tick before and "
                "after a collection window closes, timeouts {0, 1 tick, 5 ms}, both tie orders; complete traces compared with the model; implementation trace "
                "judged by check_C15 (per destination: transmitted entry sequence = queued sequence, each within the timeout); non-trivial = distinct scenario")
    ctx.assumptions = ["each batch is encodable (a batch needing an option index > 255 raises in send_sd and is lost as a whole: observation O3, outside the domain)"]
    n = 300 if quick else 10000
    scs = stackprop.corpus_scenarios("C15") + [scen.queue_scenario(r) for _ in range(n)]
    rll = random.Random(ctx.seed * 7919 + 115)     # a stream of its own
    scs += [scen.queue_scenario(rll, dests=[[301], [302], [301], [302], [1], None]) for _ in range(40 if quick else 1500)]     # destinations that agree in host and port (IPv6 scope ids)
    stackprop.run_scenarios(ctx, scs, 3015, CODES, what="send queue")


def replay(ctx, rp):
    return stackprop.replay(ctx, rp, 3015)
