"""C19 - wildcard laws of the matching functions (config.py)."""
import itertools

import someip.config as C
import someip.header as H

from .. import conv, sexp
from ..common import compare, incoq_crosscheck

IIDS = [1, 2, 0xFFFF, 0xFFFE]
MAJS = [1, 2, 0xFF, 0xFE]
MINS = [1, 2, 0xFFFFFFFF, 0xFFFFFFFE]
SIDS = [1, 2]


# every field also takes the wildcard constants of the OTHER fields (0xFF as an instance id or minor version, 0xFFFF as a
# minor version are ordinary values there)
IIDS_X = [1, 0xFF, 0xFFFF]
MAJS_X = [1, 0xFF]
MINS_X = [1, 0xFF, 0xFFFF, 0xFFFFFFFF]


def services(egs=frozenset()):
    base = [
        C.Service(s, i, j, m, eventgroups=egs)
        for s in SIDS for i in IIDS for j in MAJS for m in MINS
    ]
    seen = {(a.service_id, a.instance_id, a.major_version, a.minor_version) for a in base}
    cross = [C.Service(1, i, j, m, eventgroups=egs) for i in IIDS_X for j in MAJS_X for m in MINS_X if (1, i, j, m) not in seen]
    return base + cross


def rand_service(r, opts=False):
    def pick(w, bits):
        c = r.random()
        if c < 0.25:
            return w
        if c < 0.4:
            return w - 1
        if c < 0.6:
            return r.choice([0, 1, 2])
        return r.getrandbits(bits)
    o1 = o2 = ()
    if opts:
        pool = [
            H.IPv4EndpointOption(address=__import__("ipaddress").IPv4Address("10.0.0.%d" % r.randint(1, 3)), l4proto=H.L4Protocols.UDP, port=r.choice([30490, 30501])),
            H.SOMEIPSDLoadBalancingOption(priority=r.randint(0, 3), weight=r.randint(0, 3)),
            H.SOMEIPSDConfigOption(configs=(("a", "b"), ("k", None))),
            H.SOMEIPSDUnknownOption(type=0x77, payload=b"xy"),
        ]
        o1 = tuple(r.choice(pool) for _ in range(r.randint(0, 3)))
        o2 = tuple(r.choice(pool) for _ in range(r.randint(0, 2)))
    return C.Service(r.choice([0, 1, 2, 0xFFFF, r.getrandbits(16)]), pick(0xFFFF, 16), pick(0xFF, 8), pick(0xFFFFFFFF, 32),
                     options_1=o1, options_2=o2, eventgroups=frozenset(r.sample([1, 2, 3, 0xFFFF], r.randint(0, 3))))


def run(ctx):
    r = ctx.rng
    ctx.rule = ("exhaustive over {1,2} service ids x {1,2,wildcard,wildcard-1} per instance/major/minor plus the other fields' wildcard constants as ordinary values (0xFF, 0xFFFF) for all pairs, for "
                "matches_offer/find/subscribe/service (+ wrong-type entries), plus random full-range values; a case is "
                "non-trivial when it is a distinct (function, arguments) tuple; each implementation result is compared with the "
                "model AND judged by the extracted Gallina spec_* functions and by the algebraic laws (symmetry, monotonicity, duality, round-trip)")
    ctx.exhaustive = True
    ctx.assumptions = ["Service/entry fields are natural numbers; entries built by the library's own create_* functions or random entries of all four types"]
    svcs = services()
    cases, impl, descr = [], [], []
    spec_cases = []

    def add(op, arg, res, d, spec_op=None):
        cases.append((op, arg))
        impl.append(res)
        descr.append(d)
        if spec_op is not None:
            spec_cases.append((len(cases) - 1, spec_op, arg))

    # --- exhaustive part ---
    s_sx = {id(s): conv.s_service(s) for s in svcs}
    offers = {id(s): s.create_offer_entry(3) for s in svcs}
    finds = {id(s): s.create_find_entry(3) for s in svcs}
    offers_sx = {k: conv.s_entry(v) for k, v in offers.items()}
    finds_sx = {k: conv.s_entry(v) for k, v in finds.items()}
    table = {}
    for a in svcs:
        for b in svcs:
            ka, kb = id(a), id(b)
            ro = conv.s_res(lambda: a.matches_offer(offers[kb]))
            add(1901, [s_sx[ka], offers_sx[kb]], ro, ("matches_offer", ka, kb), 1921)
            rf = conv.s_res(lambda: a.matches_find(finds[kb]))
            add(1902, [s_sx[ka], finds_sx[kb]], rf, ("matches_find", ka, kb), 1922)
            rs = a.matches_service(b)
            add(1904, [s_sx[ka], s_sx[kb]], bool(rs), ("matches_service", ka, kb), 1924)
            table[(ka, kb)] = (ro, rf, rs)
            ctx.case(("ex", a, b), kind="exhaustive-pair")
    idx = {(s.service_id, s.instance_id, s.major_version, s.minor_version): id(s) for s in svcs}
    # laws on the implementation's own results
    for a in svcs:
        for b in svcs:
            ka, kb = id(a), id(b)
            ro, rf, rs = table[(ka, kb)]
            if rs != table[(kb, ka)][2]:
                ctx.violation("matches_service is not symmetric", dict(a=conv.s_service(a), b=conv.s_service(b)))
            # duality: a answers b's find entry  <->  b accepts a's offer entry
            if rf != table[(kb, ka)][0]:
                ctx.violation("find/offer duality fails", dict(service=conv.s_service(a), filter=conv.s_service(b)))
            # monotonicity: widen each field of the filter a
            for wi, wj, wm in itertools.product([0, 1], repeat=3):
                wa = idx[(a.service_id, 0xFFFF if wi else a.instance_id, 0xFF if wj else a.major_version, 0xFFFFFFFF if wm else a.minor_version)]
                if ro == [0, True] and table[(wa, kb)][0] != [0, True]:
                    ctx.violation("widening a filter lost an offer match", dict(filter=conv.s_service(a), offer_of=conv.s_service(b), widen=[wi, wj, wm]))
                if rs and not table[(wa, kb)][2]:
                    ctx.violation("widening a description lost a service match", dict(a=conv.s_service(a), b=conv.s_service(b), widen=[wi, wj, wm]))
    # subscribe: services declaring eventgroups {1,2}; entries for eventgroups 1 and 3
    sub_svcs = [C.Service(s, i, j, 0, eventgroups=frozenset({1, 2})) for s in SIDS for i in IIDS for j in MAJS]
    for a in sub_svcs:
        for s in SIDS:
            for i in IIDS:
                for j in MAJS:
                    for egid in (1, 3):
                        for ctr in (0, 15):
                            g = C.Eventgroup(s, i, j, egid, ("10.0.0.1", 3000), H.L4Protocols.UDP)
                            e = g.create_subscribe_entry(5, ctr)
                            res = conv.s_res(lambda: a.matches_subscribe(e))
                            add(1903, [conv.s_service(a), conv.s_entry(e)], res, ("matches_subscribe", a, g), 1923)
                            expect = (a.service_id == s and a.instance_id in (0xFFFF, i) and a.major_version in (0xFF, j) and egid in a.eventgroups)
                            if res != [0, expect]:
                                ctx.violation("matches_subscribe differs from ids-match and eventgroup-declared", dict(service=conv.s_service(a), entry=conv.s_entry(e), got=res))
                            ctx.case(("sub", a, g, ctr), kind="exhaustive-subscribe")
    # --- wrong entry types, conversions, random full range ---
    n_rand = 3000 if ctx.tier == "quick" else 60000
    for k in range(n_rand):
        a, b = rand_service(r, opts=True), rand_service(r, opts=True)
        if r.random() < 0.3:
            b = C.Service(a.service_id, b.instance_id, b.major_version, b.minor_version, b.options_1, b.options_2, b.eventgroups)
        if r.random() < 0.3:
            b = C.Service(b.service_id, a.instance_id, a.major_version, a.minor_version, b.options_1, b.options_2, b.eventgroups)
        ttl = r.choice([0, 1, 3, 0xFFFFFF])
        eo, ef = b.create_offer_entry(ttl), b.create_find_entry(ttl)
        g = C.Eventgroup(b.service_id, b.instance_id, b.major_version, r.choice([1, 2, 3, 0xFFFF]),
                         r.choice([("10.0.0.1", 3000), ("2001:db8::1", 3001, 0, 0)]), r.choice([H.L4Protocols.UDP, H.L4Protocols.TCP]))
        es = g.create_subscribe_entry(ttl, r.randint(0, 15))
        sa, sb = conv.s_service(a), conv.s_service(b)
        add(1906, [sb, ttl], conv.s_entry(eo), ("create_offer_entry", b))
        add(1905, [sb, ttl], conv.s_entry(ef), ("create_find_entry", b))
        add(1909, [conv.s_eg(g), ttl, es.eventgroup_counter], conv.s_entry(es), ("create_subscribe_entry", g))
        add(1910, conv.s_eg(g), conv.s_service(g.as_service()), ("as_service", g))
        entries = [eo, ef, es, H.SOMEIPSDEntry(H.SOMEIPSDEntryType.SubscribeAck, b.service_id, b.instance_id, b.major_version, ttl, 0)]
        e = r.choice(entries)
        sx = conv.s_entry(e)
        good_o = e.sd_type == H.SOMEIPSDEntryType.OfferService
        good_f = e.sd_type == H.SOMEIPSDEntryType.FindService
        good_s = e.sd_type == H.SOMEIPSDEntryType.Subscribe
        add(1901, [sa, sx], conv.s_res(lambda: a.matches_offer(e)), ("matches_offer", a, e), 1921 if good_o else None)
        add(1902, [sa, sx], conv.s_res(lambda: a.matches_find(e)), ("matches_find", a, e), 1922 if good_f else None)
        add(1903, [sa, sx], conv.s_res(lambda: a.matches_subscribe(e)), ("matches_subscribe", a, e), 1923 if good_s else None)
        add(1904, [sa, sb], bool(a.matches_service(b)), ("matches_service", a, b), 1924)
        # wrong type must raise ValueError (the model says Err EValue; checked through the comparison)
        fo = conv.s_res(lambda: C.Service.from_offer_entry(e), conv.s_service)
        add(1907, sx, fo, ("from_offer_entry", e))
        if good_o:
            back = C.Service.from_offer_entry(e)
            if not (back.service_id, back.instance_id, back.major_version, back.minor_version, back.options_1, back.options_2) == \
                   (b.service_id, b.instance_id, b.major_version, b.minor_version, b.options_1, b.options_2):
                ctx.violation("offer entry round-trip loses ids/versions/options", dict(service=sb, back=conv.s_service(back)))
        fs = g.for_service(a)
        add(1908, [conv.s_eg(g), sa], None if fs is None else [conv.s_eg(fs)], ("for_service", g, a))
        accept = g.as_service().matches_offer(a.create_offer_entry())
        if (fs is not None) != accept or (fs is not None and (fs.instance_id, fs.major_version, fs.service_id, fs.eventgroup_id, fs.sockname, fs.protocol)
                                          != (a.instance_id, a.major_version, g.service_id, g.eventgroup_id, g.sockname, g.protocol)):
            ctx.violation("for_service does not specialise exactly when the filter accepts the offer", dict(eventgroup=conv.s_eg(g), service=sa))
        add(1911, [sa, sb], a == b, ("service_eq", a, b))
        ctx.case(("rand", sa, sb, sx), kind="random-" + e.sd_type.name, sample=dict(service=sexp.dumps(sa), entry=sexp.dumps(sx)) if k < 3 else None)
    outs = compare(ctx, cases, impl, "config.py function differs from Model/Config.v", lambda i: repr(descr[i])[:300])
    # exactness: implementation result versus the extracted Gallina spec_* on the same arguments
    spec_out = ctx.model.batch([(op, arg) for _, op, arg in spec_cases])
    for (i, op, arg), so in zip(spec_cases, spec_out):
        got = impl[i]
        exp_b = so == "1"
        got_b = got if isinstance(got, bool) else (got[1] if got[0] == 0 else None)
        if got_b is None or bool(got_b) != exp_b:
            ctx.violation("matching result differs from the wildcard specification", dict(function=cases[i][0], arg=sexp.dumps(arg), implementation=got, spec=exp_b))
    ctx.notes["spec_judged_cases"] = len(spec_cases)
    incoq_crosscheck(ctx, cases, outs, limit=150 if ctx.tier == "quick" else 600)
