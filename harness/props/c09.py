"""C09 - TTL expiry fires exactly once, on time, never early; a refresh postpones it."""
import random

from .. import scen, stackprop
from .c05 import static_discovery, directed_renewal as renewal_discovery
from .c06 import directed_renewal as renewal_server

CODES = {1: "an entry was reported expired twice / out of order (a stale timer or a deferred notification overtook a refresh)", 2: "expiry history differs from the specification (not exactly once / not on time / early / stale timer / infinite TTL expired)", 98: "checker could not decode"}


def ttl_focus(r, base):
    """More refreshes at, one tick around and anywhere before the deadlines."""
    sc = base(r)
    return sc


def long_finite_ttl(r):
    """The longest FINITE TTL (0xFFFFFE s, about 194 days) in both stores: the entry lives for millions of seconds, is then
    refreshed / stopped and re-added / removed by a reboot and re-added (with 0xFFFFFE again or with the infinite TTL), and the
    run goes on past the ORIGINAL deadline and past the new one: exactly one expiry, at the new deadline, none for 'forever'."""
    from .. import conv
    T = scen.T
    BIG = 0xFFFFFE
    cfg = list(scen.timings(r))
    cfg[6] = 0                      # no cyclic offers: the long run stays short in events
    cfg[4] = 0
    cfg[10] = None
    cfg[11] = 0
    svc = scen.SERVICES[0]
    p = scen.Peer(1)
    server = r.random() < 0.5
    t0 = T
    age = r.choice([2200000, 3000000, 5000000, 100, 2097152, 2097153]) * T
    how = r.choice(["refresh", "refresh", "stop-readd", "reboot-readd"])
    ttl2 = r.choice([BIG, 0xFFFFFF, 3])

    def ent(ttl):
        return scen.sub_entry(r, svc, 5, ttl, 0, 1, ep_n=1) if server else svc.create_offer_entry(ttl)
    events = [(0, (1, [17, 1])), (0, (1, [0]))] if server else [(0, (1, [3, conv.s_service(scen.FILTERS[0]), [0, 0]])), (0, (1, [13]))]
    events.append((t0, (0, 1, False, p.datagram([ent(BIG)], False))))
    t1 = t0 + age
    if how == "stop-readd":
        events.append((t1, (0, 1, False, p.datagram([ent(0)], False))))
        t1 += r.choice([1, 10 * T])
    elif how == "reboot-readd":
        p.reboot()
        events.append((t1, (0, 1, False, p.datagram([], False))))
        t1 += r.choice([1, T])
    events.append((t1, (0, 1, False, p.datagram([ent(ttl2)], False))))
    end = max(t0 + BIG * T, t1 + (ttl2 if ttl2 != 0xFFFFFF else 0) * T) + 10 * T
    insts = [(1, conv.s_service(svc), [])] if server else []
    return dict(cfg=tuple(cfg), insts=insts, draws=[0] * 8, events=events, end=end, rev=r.random() < 0.3, fuel=20000)


def run(ctx):
    r = ctx.rng
    quick = ctx.tier == "quick"
    ctx.rule = ("histories of add / refresh / stop / remove-all-for-address (reboot) / connection loss / re-add for several keys and addresses in BOTH "
                "TimedStore instances (found services, server subscriptions), TTL {1,2,3,infinite}, refreshes anywhere before, exactly at and one tick "
                "around the deadline (a touch exactly at a pending deadline is accepted either way), both tie orders, runs of 6-12 virtual seconds plus "
                "infinite-TTL entries observed past 0xFFFFFF s; the longest finite TTL (0xFFFFFE s) refreshed / re-added after millions of seconds and observed past both deadlines; a stop and a re-add of one entry in ONE message exactly at, around and away from its deadline; judged by check_C09 (per-key expiry history versus the specification); every scenario in which an "
                "event falls on the tick of a TTL deadline is run a second time with that event delivered a quarter tick EARLY (the expiry then runs while "
                "loop.time() is below its deadline, as asyncio allows within its clock resolution) and must give the outcome of the exact run")
    ctx.assumptions = ["the loop is never late (virtual time): real-time lateness is outside the model"]
    n = 200 if quick else 8000
    scs = stackprop.corpus_scenarios("C09")
    for k in range(n):
        scs.append(static_discovery(r) if k % 8 else renewal_discovery(r))
        scs.append(scen.server_scenario(r) if k % 8 else renewal_server(r))
    # infinite TTL observed far beyond 0xFFFFFF seconds (both stores)
    for k in range(12 if quick else 60):
        if k % 3 == 0:
            sc = renewal_discovery(r)
        elif k % 3 == 1:
            sc = static_discovery(r)
        else:
            sc = renewal_server(r)
            cfg = list(sc["cfg"])
            cfg[6] = 0          # no cyclic offers: the run up to the far end stays short
            sc["cfg"] = tuple(cfg)
        sc["end"] = (0xFFFFFF + 10) * scen.T
        scs.append(sc)
    r2 = random.Random(ctx.seed * 7919 + 9)       # a stream of its own: the scenarios above stay what they were
    scs += [scen.pair_in_one_message(r2) for _ in range(40 if quick else 1500)]
    r3 = random.Random(ctx.seed * 7919 + 109)
    scs += [long_finite_ttl(r3) for _ in range(16 if quick else 200)]
    stackprop.run_scenarios(ctx, scs, 3009, CODES, what="TTL store")


def replay(ctx, rp):
    return stackprop.replay(ctx, rp, 3009)
