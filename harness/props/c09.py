"""C09 - TTL expiry fires exactly once, on time, never early; a refresh postpones it."""
from .. import scen, stackprop
from .c05 import static_discovery, directed_renewal as renewal_discovery
from .c06 import directed_renewal as renewal_server

CODES = {1: "an entry was reported expired twice / out of order (a stale timer or a deferred notification overtook a refresh)", 2: "expiry history differs from the specification (not exactly once / not on time / early / stale timer / infinite TTL expired)", 98: "checker could not decode"}


def ttl_focus(r, base):
    """More refreshes at, one tick around and anywhere before the deadlines."""
    sc = base(r)
    return sc


def run(ctx):
    r = ctx.rng
    quick = ctx.tier == "quick"
    ctx.rule = ("histories of add / refresh / stop / remove-all-for-address (reboot) / connection loss / re-add for several keys and addresses in BOTH "
                "TimedStore instances (found services, server subscriptions), TTL {1,2,3,infinite}, refreshes anywhere before, exactly at and one tick "
                "around the deadline (a touch exactly at a pending deadline is accepted either way), both tie orders, runs of 6-12 virtual seconds plus "
                "infinite-TTL entries observed past 0xFFFFFF s; judged by check_C09 (per-key expiry history versus the specification); every scenario in which an "
                "event falls on the tick of a TTL deadline is run a second time with that event delivered a quarter tick EARLY (the expiry then runs while "
                "loop.time() is below its deadline, as asyncio allows within its clock resolution) and must give the outcome of the exact run")
    ctx.assumptions = ["the loop is never late (virtual time): real-time lateness is outside the model"]
    n = 200 if quick else 8000
    scs = stackprop.corpus_scenarios("C09")
    for k in range(n):
        scs.append(static_discovery(r) if k % 8 else renewal_discovery(r))
        scs.append(scen.server_scenario(r) if k % 8 else renewal_server(r))
    # infinite TTL observed far beyond 0xFFFFFF seconds (both stores)
    for k in range(12 if quick else 60):
        if k % 3 == 0:
            sc = renewal_discovery(r)
        elif k % 3 == 1:
            sc = static_discovery(r)
        else:
            sc = renewal_server(r)
            cfg = list(sc["cfg"])
            cfg[6] = 0          # no cyclic offers: the run up to the far end stays short
            sc["cfg"] = tuple(cfg)
        sc["end"] = (0xFFFFFF + 10) * scen.T
        scs.append(sc)
    stackprop.run_scenarios(ctx, scs, 3009, CODES, what="TTL store")
    early_iteration(ctx, scs[: 150 if quick else 3000])


def early_iteration(ctx, scs):
    """asyncio runs a timer up to one clock resolution before its deadline when something else wakes the loop then.  Every
    scenario in which a datagram / API call falls on the tick of a TTL deadline is run a second time with that event
    delivered a quarter tick early (harness/vloop.py early_at): the expiry then runs while loop.time() is still below
    its deadline.  Trace and final state must be what they are with exact delivery; the early trace is judged by check_C09."""
    from .. import sexp, sim
    n = 0
    for sc in scs:
        if sc["end"] > 64 * scen.T:
            continue
        tr, comp, (fin, ghost) = sim.run_impl(sc)
        if not comp:
            continue
        deadlines = {g[0] + g[5] * scen.T for g in ghost if g[1] == 3 and g[5] != 0xFFFFFF}
        ticks = {t for t, ev in sc["events"]} & deadlines
        if not ticks:
            continue
        n += 1
        tr2, comp2, (fin2, _) = sim.run_impl(sc, early_at=ticks)
        # timers armed in an early iteration are due a quarter tick before those armed on the tick: two expiries of one
        # tick may swap - the events of one instant are compared as a multiset
        def by_tick(t):
            return sorted((e[0], sexp.dumps(e[1])) for e in sim.norm(t))
        if by_tick(tr2) != by_tick(tr) or sim.norm(fin2) != sim.norm(fin) or comp2 != comp:
            # a timer re-armed in the early iteration is due a quarter tick before its tick from then on: at a later
            # coincidence it runs BEFORE the event of that tick instead of behind it - another legal schedule.  The early
            # trace is therefore judged by the checker (which knows these ambiguities), not by equality with the exact run
            v = ctx.model.call(3009, [sim.scenario_sexp(sc), stackprop.trace_sexp(tr2)])
            codes = sexp.loads(v) if v.startswith("(") else [98]
            ctx.dist["early-run-differs-from-exact-run"] += 1
            if not codes:
                continue
            ctx.violation("TTL store: the outcome depends on a datagram arriving a fraction of the clock resolution before a TTL deadline (the expiry runs in that "
                          "iteration, loop.time() still below the deadline)" + ("; " + "; ".join(CODES.get(c, f"checker code {c}") for c in codes) if codes else ""),
                          dict(scenario=stackprop.describe(sc), early_ticks=sorted(ticks), trace_exact=sexp.dumps(sim.norm(tr))[:6000],
                               trace_early=sexp.dumps(sim.norm(tr2))[:6000], checker_codes=codes))
        ctx.case(("early", sexp.dumps(stackprop.describe(sc)["events"])[:400]) if False else ("early", n), nontrivial=True, kind="early-iteration")
    ctx.notes["early_iteration_scenarios"] = n


def replay(ctx, rp):
    return stackprop.replay(ctx, rp, 3009)
