"""C09 - TTL expiry fires exactly once, on time, never early; a refresh postpones it."""
import random

from .. import scen, stackprop
from .c05 import static_discovery, directed_renewal as renewal_discovery
from .c06 import directed_renewal as renewal_server

CODES = {1: "an entry was reported expired twice / out of order (a stale timer or a deferred notification overtook a refresh)", 2: "expiry history differs from the specification (not exactly once / not on time / early / stale timer / infinite TTL expired)", 98: "checker could not decode"}


def ttl_focus(r, base):
    """More refreshes at, one tick around and anywhere before the deadlines."""
    sc = base(r)
    return sc


def run(ctx):
    r = ctx.rng
    quick = ctx.tier == "quick"
    ctx.rule = ("histories of add / refresh / stop / remove-all-for-address (reboot) / connection loss / re-add for several keys and addresses in BOTH "
                "TimedStore instances (found services, server subscriptions), TTL {1,2,3,infinite}, refreshes anywhere before, exactly at and one tick "
                "around the deadline (a touch exactly at a pending deadline is accepted either way), both tie orders, runs of 6-12 virtual seconds plus "
                "infinite-TTL entries observed past 0xFFFFFF s; a stop and a re-add of one entry in ONE message exactly at, around and away from its deadline; judged by check_C09 (per-key expiry history versus the specification); every scenario in which an "
                "event falls on the tick of a TTL deadline is run a second time with that event delivered a quarter tick EARLY (the expiry then runs while "
                "loop.time() is below its deadline, as asyncio allows within its clock resolution) and must give the outcome of the exact run")
    ctx.assumptions = ["the loop is never late (virtual time): real-time lateness is outside the model"]
    n = 200 if quick else 8000
    scs = stackprop.corpus_scenarios("C09")
    for k in range(n):
        scs.append(static_discovery(r) if k % 8 else renewal_discovery(r))
        scs.append(scen.server_scenario(r) if k % 8 else renewal_server(r))
    # infinite TTL observed far beyond 0xFFFFFF seconds (both stores)
    for k in range(12 if quick else 60):
        if k % 3 == 0:
            sc = renewal_discovery(r)
        elif k % 3 == 1:
            sc = static_discovery(r)
        else:
            sc = renewal_server(r)
            cfg = list(sc["cfg"])
            cfg[6] = 0          # no cyclic offers: the run up to the far end stays short
            sc["cfg"] = tuple(cfg)
        sc["end"] = (0xFFFFFF + 10) * scen.T
        scs.append(sc)
    r2 = random.Random(ctx.seed * 7919 + 9)       # a stream of its own: the scenarios above stay what they were
    scs += [scen.pair_in_one_message(r2) for _ in range(40 if quick else 1500)]
    stackprop.run_scenarios(ctx, scs, 3009, CODES, what="TTL store")


def replay(ctx, rp):
    return stackprop.replay(ctx, rp, 3009)
