"""C06 - server subscription records are truthful; acknowledged subscriptions are held."""
import random

from .. import scen, stackprop

CODES = {1: "server listener notifications do not alternate subscribed/unsubscribed (or a rejected subscription was reported unsubscribed)",
         2: "subscription history differs from the specification (accept / TTL / StopSubscribe / reboot / service stop)",
         4: "a positive SubscribeAck left although the subscription was not recorded", 98: "checker could not decode"}


def directed_renewal(r):
    """A finite-TTL subscription that is renewed before its deadline - by a plain Subscribe, or after a detected reboot /
    a StopSubscribe - with a LATER deadline (longer or infinite TTL); the run extends beyond the first deadline."""
    from .. import conv
    T = scen.T
    cfg = list(scen.timings(r))
    cfg[6] = T                       # cyclic: the instance keeps running
    cfg[11] = r.choice([0, 5 * scen.MS])
    svc = scen.SERVICES[0]
    peers = {1: scen.Peer(1)}
    ttl1 = r.choice([1, 2])
    t0 = T // 2 + r.choice([0, T // 4])
    t1 = t0 + r.randrange(1, ttl1 * T)
    ttl2 = r.choice([3, 0xFFFFFF])
    how = r.choice(["refresh", "refresh", "reboot", "stop", "rejected-first", "rejected-first"])
    events = [(0, (1, [17, 1])), (0, (1, [0]))]
    rejects = [5] if how == "rejected-first" else []
    events.append((t0, (0, 1, False, peers[1].datagram([scen.sub_entry(r, svc, 5, ttl1, 0, 1, ep_n=1)], False))))
    if how == "reboot":
        peers[1].reboot()
    if how == "stop":
        events.append((t1, (0, 1, False, peers[1].datagram([scen.sub_entry(r, svc, 5, 0, 0, 1, ep_n=1)], False))))
        t1 += r.choice([1, T // 8])
    if how == "rejected-first":
        # the listener rejects the first Subscribe and changes its mind before the second one (same key, later deadline)
        events.append((t1, (1, [21, 1, []])))
        t1 += r.choice([0, 1, T // 8])
    events.append((t1, (0, 1, False, peers[1].datagram([scen.sub_entry(r, svc, 5, ttl2, 0, 1, ep_n=1)], False))))
    return dict(cfg=tuple(cfg), insts=[(1, conv.s_service(svc), rejects)], draws=[0] * 8, events=events, end=max(t0 + ttl1 * T, t1 + (3 if ttl2 == 3 else 0) * T) + 2 * T, rev=r.random() < 0.3, fuel=20000)


def directed_same_host(r):
    """Two subscribers whose SD addresses share the host and differ in the port (and one on another host) hold
    subscriptions; one of them reveals a reboot (alone, or together with a new Subscribe): only ITS subscriptions go."""
    from .. import conv
    T = scen.T
    cfg = list(scen.timings(r))
    cfg[6] = T
    cfg[11] = r.choice([0, 5 * scen.MS])
    svc = scen.SERVICES[0]
    peers = {a: scen.Peer(a) for a in (1, 101, 2)}
    events = [(0, (1, [17, 1])), (0, (1, [0]))]
    t = T // 2
    for a in r.sample([1, 101, 2], 3):
        t += r.choice([1, T // 16])
        events.append((t, (0, a, False, peers[a].datagram([scen.sub_entry(r, svc, r.choice([5, 6]), r.choice([3, 0xFFFFFF, 0xFFFFFF]), 0, 1, ep_n=a)], False))))
    who = r.choice([1, 101])
    t += r.choice([T // 8, T // 2])
    peers[who].reboot()
    es = [scen.sub_entry(r, svc, 5, r.choice([3, 0xFFFFFF]), 0, 1, ep_n=who)] if r.random() < 0.5 else []
    events.append((t, (0, who, False, peers[who].datagram(es, False))))
    return dict(cfg=tuple(cfg), insts=[(1, conv.s_service(svc), [])], draws=[0] * 8, events=events, end=t + 5 * T, rev=r.random() < 0.3, fuel=20000)


def run(ctx):
    r = ctx.rng
    quick = ctx.tier == "quick"
    ctx.rule = ("timed histories of Subscribe (TTL 1,2,3 s, infinite) / StopSubscribe / reboot evidence (alone and with Subscribes in one datagram) / "
                "listener accept-reject / service stop-start / connection loss / FindService, 3 subscribers x 1-3 instances x eventgroups x counters {0,1,15} x "
                "0-2 endpoints x extra options, times on deadlines, +-1 tick, anywhere, both tie orders; Subscribe and StopSubscribe for ONE subscription in one "
                "message (both orders, on and around the deadline of the live subscription); a multicast message revealing a reboot and a unicast Subscribe of the same peer in ONE instant; complete traces compared with the model, "
                "implementation trace judged by check_C06; non-trivial = distinct scenario producing at least one event")
    ctx.assumptions = ["the server listener's decision is a function of the eventgroup id (scenario input)"]
    n = 300 if quick else 12000
    scs = stackprop.corpus_scenarios("C06") + [directed_renewal(r) if k % 10 == 9 else directed_same_host(r) if k % 10 == 4 else scen.server_scenario(r) for k in range(n)]
    if not quick:
        scs += [scen.server_scenario(r, small=True, length=r.randint(1, 5)) for _ in range(3000)]
    r2 = random.Random(ctx.seed * 7919 + 6)       # a stream of its own: the scenarios above stay what they were
    scs += [scen.pair_in_one_message(r2) for _ in range(40 if quick else 1500)]
    r3 = random.Random(ctx.seed * 7919 + 106)
    scs += [scen.two_channels_one_instant(r3) for _ in range(30 if quick else 1000)]
    rwi = random.Random(ctx.seed * 7919 + 206)     # a stream of its own
    scs += [scen.wildcard_instance(rwi) for _ in range(30 if quick else 1000)]
    stackprop.run_scenarios(ctx, scs, 3006, CODES, what="server subscriptions")


def replay(ctx, rp):
    return stackprop.replay(ctx, rp, 3006)
