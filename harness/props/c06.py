"""C06 - server subscription records are truthful; acknowledged subscriptions are held."""
from .. import scen, stackprop

CODES = {1: "server listener notifications do not alternate subscribed/unsubscribed (or a rejected subscription was reported unsubscribed)",
         2: "subscription history differs from the specification (accept / TTL / StopSubscribe / reboot / service stop)",
         4: "a positive SubscribeAck left although the subscription was not recorded", 98: "checker could not decode"}


def run(ctx):
    r = ctx.rng
    quick = ctx.tier == "quick"
    ctx.rule = ("timed histories of Subscribe (TTL 1,2,3 s, infinite) / StopSubscribe / reboot evidence (alone and with Subscribes in one datagram) / "
                "listener accept-reject / service stop-start / connection loss / FindService, 3 subscribers x 1-3 instances x eventgroups x counters {0,1,15} x "
                "0-2 endpoints x extra options, times on deadlines, +-1 tick, anywhere, both tie orders; complete traces compared with the model, "
                "implementation trace judged by check_C06; non-trivial = distinct scenario producing at least one event")
    ctx.assumptions = ["the server listener's decision is a function of the eventgroup id (scenario input)"]
    n = 300 if quick else 12000
    scs = stackprop.corpus_scenarios("C06") + [scen.server_scenario(r) for _ in range(n)]
    if not quick:
        scs += [scen.server_scenario(r, small=True, length=r.randint(1, 5)) for _ in range(3000)]
    stackprop.run_scenarios(ctx, scs, 3006, CODES, what="server subscriptions")


def replay(ctx, rp):
    return stackprop.replay(ctx, rp, 3006)
