"""C05 - discovery listeners see a truthful, strictly alternating service history."""
from .. import conv, scen, stackprop

CODES = {1: "listener notifications do not alternate offered/stopped", 2: "listener history differs from the specification (live offer / TTL / withdrawal)",
         3: "reboot: 'stopped' reported after 'offered' of the same message",
         4: "loop idle: latest notification is 'offered' although the source's most recent offer has expired or was withdrawn",
         5: "loop idle: latest notification is not 'offered' although a live offer arrived while the (still registered) listener was registered", 98: "checker could not decode"}


def static_discovery(r):
    """Registrations at time 0, never removed: the full expected-history comparison applies."""
    sc = scen.discovery_scenario(r)
    from .. import conv
    evs = [(t, ev) for t, ev in sc["events"] if not (ev[0] == 1 and ev[1][0] in (3, 4, 5, 6))]
    evs = [(max(t, 1), ev) if ev[0] == 0 else (t, ev) for t, ev in evs]
    regs = []
    for lid in range(r.randint(1, 3)):
        if r.random() < 0.4:
            regs.append((0, (1, [5, [0, lid]])))
        else:
            regs.append((0, (1, [3, conv.s_service(r.choice(scen.FILTERS)), [0, lid]])))
    sc["events"] = regs + sorted(evs, key=lambda x: x[0])
    return sc


def directed_renewal(r):
    """A finite-TTL offer that is replaced before its deadline - by a plain refresh, or after a detected reboot / connection
    loss - by an offer with a LATER deadline (longer or infinite TTL); the run extends beyond the first deadline."""
    from .. import conv
    T = scen.T
    cfg = list(scen.timings(r))
    cfg[11] = r.choice([0, 5 * scen.MS])
    peers = {1: scen.Peer(1)}
    svc = r.choice(scen.SERVICES)
    regs = [(0, (1, [5, [0, 0]]))] if r.random() < 0.5 else [(0, (1, [3, conv.s_service(scen.FILTERS[0] if svc.service_id == 0x1111 else scen.FILTERS[3]), [0, 1]]))]
    ttl1 = r.choice([1, 2])
    t0 = r.choice([1, T // 4])
    t1 = t0 + r.randrange(1, ttl1 * T)
    how = r.choice(["refresh", "reboot", "reboot", "connlost"])
    ttl2 = r.choice([3, 0xFFFFFF])
    events = list(regs)
    events.append((t0, (0, 1, False, peers[1].datagram([svc.create_offer_entry(ttl1)], False))))
    if how == "reboot":
        peers[1].reboot()
    if how == "connlost":
        events.append((t1, (1, [2])))
        t1 += r.choice([1, T // 8])
    events.append((t1, (0, 1, False, peers[1].datagram([svc.create_offer_entry(ttl2)], False))))
    return dict(cfg=tuple(cfg), insts=[], draws=[0] * 4, events=events, end=t0 + ttl1 * T + 2 * T, rev=r.random() < 0.3, fuel=20000)


def directed_rewatch(r):
    """A listener that unregisters and registers again (same or another matching registration) while the source goes on
    talking: stop-offer, renewal with another TTL, reboot evidence, silence - during the gap, with or without another
    listener keeping the service watched."""
    from .. import conv
    T = scen.T
    cfg = list(scen.timings(r))
    cfg[11] = r.choice([0, 5 * scen.MS])
    peers = {1: scen.Peer(1)}
    svc = r.choice(scen.SERVICES)
    flt = conv.s_service(scen.FILTERS[0] if svc.service_id == 0x1111 else scen.FILTERS[3])
    reg_all, unreg_all = (1, [5, [0, 0]]), (1, [6, [0, 0]])
    reg_f, unreg_f = (1, [3, flt, [0, 0]]), (1, [4, flt, [0, 0]])
    first = r.choice(["all", "filter"])
    second = r.choice(["all", "filter"])
    events = [(0, reg_all if first == "all" else reg_f)]
    if r.random() < 0.3:
        events.append((0, (1, [5, [0, 1]]) if r.random() < 0.5 else (1, [3, flt, [0, 1]])))     # somebody else keeps watching
    ttl1 = r.choice([0xFFFFFF, 0xFFFFFF, 3, 2])
    t = r.choice([1, T // 4])
    events.append((t, (0, 1, False, peers[1].datagram([svc.create_offer_entry(ttl1)], False))))
    t += r.choice([1, T // 8, T // 2])
    events.append((t, unreg_all if first == "all" else unreg_f))
    gap = r.choice(["stop", "stop", "shorter", "longer", "reboot", "reboot+offer", "none"])
    t += r.choice([0, 1, T // 8])
    if gap == "stop":
        events.append((t, (0, 1, False, peers[1].datagram([svc.create_offer_entry(0)], False))))
    elif gap == "shorter":
        events.append((t, (0, 1, False, peers[1].datagram([svc.create_offer_entry(1)], False))))
    elif gap == "longer":
        events.append((t, (0, 1, False, peers[1].datagram([svc.create_offer_entry(0xFFFFFF)], False))))
    elif gap == "reboot":
        peers[1].reboot()
        events.append((t, (0, 1, False, peers[1].datagram([], False))))
    elif gap == "reboot+offer":
        peers[1].reboot()
        events.append((t, (0, 1, False, peers[1].datagram([svc.create_offer_entry(r.choice([1, 0xFFFFFF]))], False))))
    t += r.choice([0, 1, T // 8, T + T // 2])
    events.append((t, reg_all if second == "all" else reg_f))
    if r.random() < 0.3:
        t += r.choice([1, T // 4])
        events.append((t, (0, 1, False, peers[1].datagram([svc.create_offer_entry(r.choice([0, 1, 3]))], False))))
    if r.random() < 0.4:
        # the application's watch / unwatch calls are made two or three loop iterations into their instant (ApiSoon): behind
        # everything a datagram of the same instant triggers (handle_offer and the reboot clean-up run one iteration in)
        events = [(tt, (1, [r.choice([23, 24]), ev[1]])) if ev[0] == 1 and ev[1][0] in (3, 4, 5, 6) and tt > 0 else (tt, ev) for tt, ev in events]
    return dict(cfg=tuple(cfg), insts=[], draws=[0] * 4, events=events, end=t + r.choice([1, T // 2, 2 * T, 4 * T]), rev=r.random() < 0.3, fuel=20000)


def directed_double_reboot(r):
    """A source that was heard on BOTH channels reboots; its first unicast and its first multicast message afterwards (each
    reveals the reboot on its channel) arrive in ONE loop iteration, or a few ticks apart; the first carries an offer the
    second does not repeat.  Also: two restarts in a row revealed by two messages of one datagram instant."""
    from .. import conv
    T = scen.T
    cfg = list(scen.timings(r))
    cfg[11] = r.choice([0, 5 * scen.MS])
    p = scen.Peer(1)
    sx, sy = scen.SERVICES[0], scen.SERVICES[1]
    regs = [(0, (1, [5, [0, 0]]))]
    if r.random() < 0.5:
        regs.append((0, (1, [3, conv.s_service(scen.FILTERS[0]), [0, 1]])))
    events = list(regs)
    t = r.choice([1, T // 4])
    events.append((t, (0, 1, False, p.datagram([sx.create_offer_entry(r.choice([3, 0xFFFFFF]))], False))))
    events.append((t + r.choice([0, 1, T // 8]), (0, 1, True, p.datagram([sx.create_offer_entry(r.choice([3, 0xFFFFFF]))], True))))
    t += T // 2
    p.reboot()
    gap = r.choice([0, 0, 0, 1, T // 16])
    first_mc = r.random() < 0.5
    events.append((t, (0, 1, first_mc, p.datagram([sy.create_offer_entry(r.choice([3, 0xFFFFFF]))], first_mc))))
    if r.random() < 0.3:
        p.reboot()          # a second restart: the next message repeats a session id on the SAME channel
        second_mc = first_mc
    else:
        second_mc = not first_mc
    events.append((t + gap, (0, 1, second_mc, p.datagram([] if r.random() < 0.6 else [sx.create_offer_entry(3)], second_mc))))
    return dict(cfg=tuple(cfg), insts=[], draws=[0] * 4, events=sorted(events, key=lambda e: e[0]), end=t + 5 * T, rev=r.random() < 0.3, fuel=20000)


def directed_same_host(r):
    """Sources that share a HOST and differ in the port (and one on another host; two link-local ones that differ in the scope
    id) hold offers with long or infinite TTLs; one of them reveals a reboot (alone, or re-offering in the same message):
    only ITS offers are withdrawn, the others stay offered."""
    T = scen.T
    cfg = list(scen.timings(r))
    cfg[11] = r.choice([0, 5 * scen.MS])
    group = r.choice([[1, 101, 2], [1, 101, 2], [301, 302, 1]])
    peers = {a: scen.Peer(a) for a in group}
    events = [(0, (1, [5, [0, 0]]))] if r.random() < 0.5 else [(0, (1, [3, conv.s_service(scen.FILTERS[0]), [0, 0]]))]
    events.append((0, (1, [13])))
    t = T // 2
    for a in r.sample(group, 3):
        t += r.choice([1, T // 16])
        svc = r.choice(scen.SERVICES[:2])
        events.append((t, (0, a, r.random() < 0.3, peers[a].datagram([svc.create_offer_entry(r.choice([0xFFFFFF, 0xFFFFFF, 3]))], False))))
    who = r.choice(group[:2])
    t += r.choice([T // 8, T // 2])
    peers[who].reboot()
    es = [r.choice(scen.SERVICES[:2]).create_offer_entry(r.choice([3, 0xFFFFFF]))] if r.random() < 0.5 else []
    events.append((t, (0, who, False, peers[who].datagram(es, False))))
    return dict(cfg=tuple(cfg), insts=[], draws=[0] * 8, events=events, end=t + 5 * T, rev=r.random() < 0.3, fuel=20000)


def directed_exact_and_wildcard(r):
    """One offered service watched through SEVERAL filters by different listeners: a filter naming it exactly (all four ids),
    wildcard filters, watch-all, one wildcard listener registering only after the offer arrived - offers, a StopOffer or a
    TTL expiry, another offer: every listener hears everything that matches ITS filter."""
    T = scen.T
    cfg = list(scen.timings(r))
    cfg[11] = r.choice([0, 5 * scen.MS])
    svc = scen.SERVICES[0]
    p = {a: scen.Peer(a) for a in (1, 2)}
    import someip.config as C
    exact = C.Service(svc.service_id, svc.instance_id, svc.major_version, svc.minor_version)     # equal to what an offer of svc decodes to
    events = [(0, (1, [3, conv.s_service(exact if r.random() < 0.8 else svc), [0, 0]])),
              (0, (1, [3, conv.s_service(r.choice([scen.FILTERS[0], scen.FILTERS[1], scen.FILTERS[2]])), [0, 1]]))]
    if r.random() < 0.5:
        events.append((0, (1, [5, [0, 2]])))
    events.append((0, (1, [13])))
    t = T // 2
    a = r.choice([1, 2])
    ttl = r.choice([2, 0xFFFFFF])
    events.append((t, (0, a, r.random() < 0.3, p[a].datagram([svc.create_offer_entry(ttl)], False))))
    if r.random() < 0.5:
        events.append((t + T // 4, (0, 3 - a, False, p[3 - a].datagram([scen.SERVICES[1].create_offer_entry(0xFFFFFF)], False))))
    late = r.random() < 0.6
    if late:
        events.append((t + T // 2, (1, [3, conv.s_service(scen.FILTERS[0]), [0, 3]])))
    t2 = t + r.choice([T, 3 * T])
    if r.random() < 0.6 or ttl == 0xFFFFFF:
        events.append((t2, (0, a, False, p[a].datagram([svc.create_offer_entry(0)], False))))
    if r.random() < 0.5:
        events.append((t2 + T, (0, a, False, p[a].datagram([svc.create_offer_entry(3)], False))))
    if r.random() < 0.3:
        events.append((t + T // 3, (1, [4, events[0][1][1][1], [0, 0]])))
    events.sort(key=lambda e: e[0])
    return dict(cfg=tuple(cfg), insts=[], draws=[0] * 8, events=events, end=t2 + 6 * T, rev=r.random() < 0.3, fuel=20000)


def run(ctx):
    r = ctx.rng
    quick = ctx.tier == "quick"
    ctx.rule = ("timed histories of offers (TTL 1,2,3 s, infinite), stop-offers, reboot evidence (alone and with offers in one datagram), connection loss, "
                "watch/unwatch/watch-all calls, 3 sources x 3 services x 6 filters x 3 listeners, times on TTL deadlines, +-1 tick and anywhere, both "
                "tie orders; re-registration with the source talking in the gap; a rebooted source heard on both channels whose first unicast and multicast messages "
                "arrive in one loop iteration; half of the scenarios register listeners statically so that the per-listener history can be compared with the abstract "
                "specification; every scenario runs on the real stack under the virtual-time loop and on the model (complete traces compared) and the "
                "implementation trace is judged by the extracted checker check_C05; non-trivial = distinct scenario producing at least one event")
    ctx.assumptions = ["a listener is registered under at most one filter matching a given service (otherwise: known finding F13)",
                       "at most one auto-subscribe listener per filter; recording listener ids < 8 (Python set iteration order)"]
    n = 300 if quick else 12000
    scs = stackprop.corpus_scenarios("C05")
    for k in range(n):
        scs.append(directed_renewal(r) if k % 10 == 9 else directed_rewatch(r) if k % 10 == 4 else directed_double_reboot(r) if k % 10 == 7 else static_discovery(r) if k % 2 == 0 else scen.discovery_scenario(r))
    if not quick:
        for k in range(3000):
            scs.append(static_discovery(r) if k % 2 == 0 else scen.discovery_scenario(r, small=True, length=r.randint(1, 5)))
    import random
    r2 = random.Random(ctx.seed * 7919 + 5)       # a stream of its own: the scenarios above stay what they were
    scs += [directed_same_host(r2) for _ in range(30 if quick else 1000)]
    r3 = random.Random(ctx.seed * 7919 + 105)
    scs += [directed_exact_and_wildcard(r3) for _ in range(30 if quick else 1000)]
    stackprop.run_scenarios(ctx, scs, 3005, CODES, known_codes={9: "F13", 18: "F18"}, kind_of=lambda sc: "static" if all(e[1][0] not in (4, 6) for t, e in sc["events"] if e[0] == 1) else "dynamic", what="discovery")


def replay(ctx, rp):
    return stackprop.replay(ctx, rp, 3005)
