"""C05 - discovery listeners see a truthful, strictly alternating service history."""
from .. import scen, stackprop

CODES = {1: "listener notifications do not alternate offered/stopped", 2: "listener history differs from the specification (live offer / TTL / withdrawal)",
         3: "reboot: 'stopped' reported after 'offered' of the same message", 98: "checker could not decode"}


def static_discovery(r):
    """Registrations at time 0, never removed: the full expected-history comparison applies."""
    sc = scen.discovery_scenario(r)
    from .. import conv
    evs = [(t, ev) for t, ev in sc["events"] if not (ev[0] == 1 and ev[1][0] in (3, 4, 5, 6))]
    evs = [(max(t, 1), ev) if ev[0] == 0 else (t, ev) for t, ev in evs]
    regs = []
    for lid in range(r.randint(1, 3)):
        if r.random() < 0.4:
            regs.append((0, (1, [5, [0, lid]])))
        else:
            regs.append((0, (1, [3, conv.s_service(r.choice(scen.FILTERS)), [0, lid]])))
    sc["events"] = regs + sorted(evs, key=lambda x: x[0])
    return sc


def run(ctx):
    r = ctx.rng
    quick = ctx.tier == "quick"
    ctx.rule = ("timed histories of offers (TTL 1,2,3 s, infinite), stop-offers, reboot evidence (alone and with offers in one datagram), connection loss, "
                "watch/unwatch/watch-all calls, 3 sources x 3 services x 6 filters x 3 listeners, times on TTL deadlines, +-1 tick and anywhere, both "
                "tie orders; half of the scenarios register listeners statically so that the per-listener history can be compared with the abstract "
                "specification; every scenario runs on the real stack under the virtual-time loop and on the model (complete traces compared) and the "
                "implementation trace is judged by the extracted checker check_C05; non-trivial = distinct scenario producing at least one event")
    ctx.assumptions = ["a listener is registered under at most one filter matching a given service (otherwise: known finding F13)",
                       "at most one auto-subscribe listener per filter; recording listener ids < 8 (Python set iteration order)"]
    n = 300 if quick else 12000
    scs = stackprop.corpus_scenarios("C05")
    for k in range(n):
        scs.append(static_discovery(r) if k % 2 == 0 else scen.discovery_scenario(r))
    if not quick:
        for k in range(3000):
            scs.append(static_discovery(r) if k % 2 == 0 else scen.discovery_scenario(r, small=True, length=r.randint(1, 5)))
    stackprop.run_scenarios(ctx, scs, 3005, CODES, known_codes={9: "F13"}, kind_of=lambda sc: "static" if all(e[1][0] not in (4, 6) for t, e in sc["events"] if e[0] == 1) else "dynamic", what="discovery")


def replay(ctx, rp):
    return stackprop.replay(ctx, rp, 3005)
