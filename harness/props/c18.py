"""C18 - stream and datagram framing agree under arbitrary segmentation."""
import asyncio
import itertools

import someip.header as H

from .. import conv, gen, sexp
from ..common import compare, incoq_crosscheck


async def read_stream(chunks, prefed=False):
    """prefed: all chunks and the end of the stream are fed BEFORE the reader runs (a peer that sent and closed at once)."""
    reader = asyncio.StreamReader()
    sr = H.SOMEIPReader(reader)
    msgs, err = [], None
    total = sum(len(c) for c in chunks)
    if prefed:
        for c in chunks:
            reader.feed_data(c)
        reader.feed_eof()

    async def consume():
        nonlocal err
        while True:
            if sr.at_eof():
                return
            try:
                m = await sr.read()
                if m is None:        # the reader reports a clean end of the stream
                    return
                msgs.append(m)
            except asyncio.IncompleteReadError as exc:
                # the reader was already waiting for the next header when EOF arrived exactly at a
                # message boundary: that is the clean end of the stream, not a truncated message
                if not exc.partial and sum(16 + len(m.payload) for m in msgs) == total:
                    return
                err = conv.err_code(exc)
                return
            except Exception as exc:  # noqa: BLE001
                err = conv.err_code(exc)
                return

    task = asyncio.ensure_future(consume())
    if not prefed:
        for c in chunks:
            reader.feed_data(c)
            await asyncio.sleep(0)
            await asyncio.sleep(0)
        reader.feed_eof()
    await task
    return msgs, err


def datagram_decode(data):
    msgs, err = [], None
    try:
        while data:
            m, data = H.SOMEIPHeader.parse(data)
            msgs.append(m)
    except Exception as exc:  # noqa: BLE001
        err = conv.err_code(exc)
    return msgs, err


def cut(data, positions):
    out, prev = [], 0
    for p in positions:
        out.append(data[prev:p])
        prev = p
    out.append(data[prev:])
    return [c for c in out if c]


def run(ctx):
    r = ctx.rng
    quick = ctx.tier == "quick"
    ctx.rule = ("streams of 0-8 messages (payload lengths boundary-biased up to 4096), each fed to asyncio.StreamReader under several "
                "chunkings: whole, whole with the end of stream fed before the reader runs, 1-byte chunks, every single cut, random cuts; all cut PAIRS for streams <= 40 bytes; (thorough) every "
                "cut SET of a 16/17-byte stream; truncation at every position; one corrupted header field; streams whose messages share the last header word with a later length field below 8; single-bit flips of protocol version / message type / return code; a corrupted header whose payload is cut short; a case = (stream, chunking), "
                "non-trivial when distinct; each stream result is compared with datagram decoding of the concatenation (the property) and with the model")
    ctx.assumptions = ["asyncio.StreamReader.readexactly is chunking-independent (exercised, not modelled): the model reads from the concatenated stream"]
    loop = asyncio.new_event_loop()
    cases, impl, descr = [], [], []
    streams = []
    for k in range(60 if quick else 1200):
        n = r.choice([0, 1, 1, 2, 3, 8])
        ms = [gen.message(r, maxlen=4096 if r.random() < 0.15 else 40) for _ in range(n)]
        if ms and r.random() < 0.3:
            ms[-1] = gen.message(r, maxlen=0)      # the stream ends with an empty-payload message
        data = b"".join(bytes(m.build()) for m in ms)
        kind = "valid"
        c = r.random()
        if data and c < 0.25:
            data = data[: r.randrange(len(data))]
            kind = "truncated"
        elif data and c < 0.65 and any(len(m.payload) > 0 for m in ms):
            # a rejectable header AND the stream ends inside that message's payload: the reader must reject (ParseError), not wait / report incomplete
            j = r.choice([i for i, m in enumerate(ms) if len(m.payload) > 0])
            off = sum(len(m.payload) + 16 for m in ms[:j])
            d = bytearray(data)
            which = r.choice([12, 14, 15])
            d[off + which] = r.choice([0, 7, 0xFF, 0x7F])
            data = bytes(d[: off + 16 + r.randrange(0, len(ms[j].payload))])
            kind = "corrupted+truncated"
        elif data and c < 0.8:
            j = r.randrange(len(ms))
            off = sum(len(m.payload) + 16 for m in ms[:j])
            d = bytearray(data)
            which = r.choice([12, 14, 15, 4, 5, 6, 7])
            d[off + which] = r.choice([0, 7, 0xFF, r.getrandbits(8)])
            data = bytes(d)
            kind = "corrupted"
        streams.append((data, kind))
    # messages of one stream that share interface version, message type and return code (as the messages of one connection
    # do), a LATER one with a length field below 8 / beyond the stream / a bad version - whatever the reader learnt from the
    # earlier ones, it must reject exactly as datagram decoding does
    import random
    r2 = random.Random(ctx.seed * 7919 + 18)      # a stream of its own: the streams above stay what they were
    for k in range(40 if quick else 800):
        base = gen.message(r2, maxlen=12)
        ms = [H.SOMEIPHeader(r2.getrandbits(16), r2.getrandbits(16), r2.getrandbits(16), r2.getrandbits(16), base.interface_version, base.message_type, 1,
                             base.return_code, bytes(r2.getrandbits(8) for _ in range(r2.choice([0, 1, 5, 12])))) for _ in range(r2.randint(2, 4))]
        data = bytearray(b"".join(bytes(m.build()) for m in ms))
        j = r2.randrange(1, len(ms))
        off = sum(len(m.payload) + 16 for m in ms[:j])
        c = r2.random()
        if c < 0.6:
            data[off + 4:off + 8] = r2.choice([0, 1, 7, 7, 3]).to_bytes(4, "big")
        elif c < 0.8:
            data[off + 4:off + 8] = r2.choice([0xFFFFFFFF, 0x80000000, len(data)]).to_bytes(4, "big")
        else:
            data[off + 12] = r2.choice([0, 2])
        streams.append((bytes(data), "same-tail-corrupted"))
    # every single-bit flip of the last header word (protocol version, interface version, message type, return code) of
    # one message of a stream: whatever the datagram decoder does with it, the stream reader does the same
    for k in range(40 if quick else 800):
        ms = [gen.message(r2, maxlen=r2.choice([0, 1, 9])) for _ in range(r2.randint(1, 3))]
        data = bytearray(b"".join(bytes(m.build()) for m in ms))
        j = r2.randrange(len(ms))
        off = sum(len(m.payload) + 16 for m in ms[:j])
        data[off + r2.choice([12, 14, 14, 14, 15, 15])] ^= 1 << r2.randrange(8)
        streams.append((bytes(data), "bit-flipped"))
    # short streams for the exhaustive cut sets
    tiny = gen.message(r, maxlen=0)
    tiny = H.SOMEIPHeader(tiny.service_id, tiny.method_id, tiny.client_id, tiny.session_id, tiny.interface_version, tiny.message_type, 1, tiny.return_code, b"")
    short_streams = [bytes(tiny.build()), bytes(tiny.build()) + bytes(H.SOMEIPHeader(1, 2, 3, 4, 5, H.SOMEIPMessageType.REQUEST, payload=b"ab").build())]
    for data, kind in streams:
        chunkings = [("whole", [data] if data else []), ("prefed", [data] if data else [])]
        if len(data) <= 300:
            chunkings.append(("bytes", [data[i:i + 1] for i in range(len(data))]))
            singles = range(1, len(data))
        else:
            singles = sorted(set(r.randrange(1, len(data)) for _ in range(12)) | {1, 15, 16, 17, len(data) - 1})
        for p in singles:
            chunkings.append(("single", cut(data, [p])))
        for _ in range(4):
            if len(data) > 2:
                ps = sorted(set(r.randrange(1, len(data)) for _ in range(r.randint(2, 9))))
                chunkings.append(("random", cut(data, ps)))
        dm, de = datagram_decode(data)
        want = ([conv.s_msg(m) for m in dm], None if de is None else [9 if de == 2 else de])
        for ck, chunks in chunkings:
            sm, se = loop.run_until_complete(read_stream(chunks, prefed=(ck == "prefed")))
            got = ([conv.s_msg(m) for m in sm], None if se is None else [se])
            if got != want:
                ctx.violation("stream reading and datagram decoding disagree", dict(stream=data.hex()[:6000], chunks=[len(c) for c in chunks][:200], fed_before_reading=(ck == "prefed"), stream_result=sexp.dumps(list(got))[:1500], datagram_result=sexp.dumps(list(want))[:1500]))
            if kind == "truncated" and se is None and len(sm) > len(dm):
                ctx.violation("a truncated stream yielded a truncated message", dict(stream=data.hex()[:6000]))
            ctx.case((data, tuple(len(c) for c in chunks)), kind=f"{kind}-{ck}",
                     sample=dict(stream=data.hex()[:120], chunks=[len(c) for c in chunks][:20], result=sexp.dumps(list(got))[:200]) if len(ctx.samples) < 3 and data else None)
        cases.append((105, data))
        impl.append([want[0], want[1]])
        descr.append(("stream", kind, len(data)))
        cases.append((103, data))
        impl.append([[conv.s_msg(m) for m in dm], None if de is None else [de]])
        descr.append(("datagram", kind, len(data)))
    # all cut pairs for short streams; all cut sets for a 16-byte stream (thorough: also 34 bytes pairs)
    for data in short_streams:
        dm, de = datagram_decode(data)
        want = ([conv.s_msg(m) for m in dm], None if de is None else [9 if de == 2 else de])
        for a, b in itertools.combinations(range(1, len(data)), 2):
            sm, se = loop.run_until_complete(read_stream(cut(data, [a, b])))
            got = ([conv.s_msg(m) for m in sm], None if se is None else [se])
            if got != want:
                ctx.violation("stream reading and datagram decoding disagree", dict(stream=data.hex(), cuts=[a, b]))
            ctx.case((data, a, b), kind="short-all-pairs")
    if not quick:
        data = short_streams[0]
        dm, de = datagram_decode(data)
        want = ([conv.s_msg(m) for m in dm], None)
        for mask in range(1 << (len(data) - 1)):
            ps = [i + 1 for i in range(len(data) - 1) if mask >> i & 1]
            sm, se = loop.run_until_complete(read_stream(cut(data, ps)))
            if ([conv.s_msg(m) for m in sm], None if se is None else [se]) != want:
                ctx.violation("stream reading and datagram decoding disagree", dict(stream=data.hex(), cuts=ps))
            ctx.case((data, mask), kind="16-byte-all-cut-sets")
        ctx.exhaustive = True
    # truncation at every position of a two-message stream: never a truncated message
    m1, m2 = gen.message(r, maxlen=9), gen.message(r, maxlen=17)
    full = bytes(m1.build()) + bytes(m2.build())
    for k in range(len(full)):
        sm, se = loop.run_until_complete(read_stream(cut(full[:k], [k // 2] if k > 1 else [])))
        expect_n = 0 if k < len(m1.build()) else 1
        if len(sm) != expect_n or (k not in (0, len(m1.build())) and se != 9) or (k in (0, len(m1.build())) and se is not None):
            ctx.violation("truncated stream: wrong messages or missing incomplete-read error", dict(stream=full[:k].hex(), got_messages=len(sm), error=se))
        cases.append((105, full[:k]))
        impl.append([[conv.s_msg(m) for m in sm], None if se is None else [se]])
        descr.append(("truncate", k))
        ctx.case(("trunc", full, k), kind="truncate-every-position")
    loop.close()
    outs = compare(ctx, cases, impl, "SOMEIPHeader.read / parse sequence differs from Model/Someip.v", lambda i: repr(descr[i]))
    incoq_crosscheck(ctx, cases, outs, limit=100 if quick else 400)


def replay(ctx, rp):
    """Re-run one recorded case: the stream, cut into the recorded chunk sizes, against datagram decoding of the same bytes."""
    if "stream" not in rp or "chunks" not in rp:
        print("(no stream recorded in this replay)")
        return 1
    data = bytes.fromhex(rp["stream"])
    chunks, pos = [], 0
    for n in rp["chunks"]:
        chunks.append(data[pos:pos + n])
        pos += n
    loop = asyncio.new_event_loop()
    try:
        sm, se = loop.run_until_complete(read_stream(chunks, prefed=bool(rp.get("fed_before_reading"))))
    finally:
        loop.close()
    dm, de = datagram_decode(data)
    want = ([conv.s_msg(m) for m in dm], None if de is None else [9 if de == 2 else de])
    got = ([conv.s_msg(m) for m in sm], None if se is None else [se])
    print("stream reader  :", sexp.dumps(list(got))[:1500])
    print("datagram decode:", sexp.dumps(list(want))[:1500])
    return 0 if got == want else 1
