"""C17 - event notifications reach exactly the current subscribers, correctly addressed."""
import json

from .. import sexp, svcsim
from ..common import load_corpus

T = 1 << 20
MS = T // 1024

CODES = {1: "a transmitted datagram is not a sequence of well-formed notifications of this service (ids / version / type / code)",
         2: "per-destination session ids are not 1,2,3,... (skipping 0)",
         3: "transmissions differ from the expected initial / explicit / cyclic notifications (who, when, which events, which values)",
         5: "refusals (NakSubscription) differ from: unknown eventgroup or not exactly one endpoint",
         98: "checker could not decode"}

EPS = [(False, 1, 4000), (False, 2, 4000), (False, 2, 4001), (True, 3, 4000), (True, 4, 5000)]


def scenario(r, wrap=False, distinct=True):
    svc = r.choice([0x1234, 0xFFFE, 1])
    major = r.choice([1, 2, 0xFE])
    egid = r.choice([5, 1, 0x7FFF])
    interval = r.choice([0, 0, T, T // 2, 3 * T // 4])
    resolve = r.choice([0, 0, 0, 1, MS])
    nval = r.randint(0, 3)
    values = [(ev, bytes(r.randrange(256) for _ in range(r.choice([0, 1, 4, 9])))) for ev in r.sample([1, 2, 3, 0x7FFF], nval)]
    end = r.choice([3, 5, 8]) * T
    n = r.randint(1, 14)
    times = sorted(jitter(r, interval, end) for _ in range(n))
    events = []
    live = []
    for t in times:
        c = r.random()
        if c < 0.35:
            pool = [e for e in EPS if e not in live] if distinct else EPS
            if not pool:
                continue
            e = r.choice(pool)
            k = r.random()
            if k < 0.08:
                events.append((t, (0, egid + 1, [e])))
            elif k < 0.14:
                events.append((t, (0, egid, [e, r.choice(EPS)] if r.random() < 0.7 else [])))
                if len(set(events[-1][1][2])) == 1:
                    events.pop()
            else:
                events.append((t, (0, egid, [e])))
                live.append(e)
        elif c < 0.55:
            if live and r.random() < 0.85:
                e = r.choice(live)
                live.remove(e)
                events.append((t, (1, egid, [e])))
            else:
                events.append((t, (1, egid, [r.choice(EPS)])))
                if events[-1][1][2][0] in live:
                    live.remove(events[-1][1][2][0])
        elif c < 0.75:
            events.append((t, (2, r.choice([1, 2, 3, 0x7FFF]), bytes(r.randrange(256) for _ in range(r.choice([0, 1, 3, 8]))))))
        else:
            known = [ev for ev, _ in values] or [1]
            evs = r.sample(known, r.randint(0, len(known)))
            if r.random() < 0.1:
                evs.append(9)  # no value: KeyError inside _notify_single, nothing sent
            events.append((t, (3, evs)))
    return (svc, major, egid, interval, resolve, values, events, end, 60000)


def jitter(r, interval, end):
    c = r.random()
    if interval and c < 0.4:
        return max(0, min(end - 1, r.randrange(0, end // interval + 1) * interval + r.choice([-1, 0, 0, 1])))
    if c < 0.6:
        return r.randrange(0, end, T // 4)
    return r.randrange(0, end)


def wrap_scenario(r):
    """Long run: one subscriber notified often enough to wrap its per-destination session id (64 events per round)."""
    egid = 5
    e, e2 = EPS[0], EPS[3]
    events = [(0, (0, egid, [e])), (0, (0, egid, [e2]))]
    n = 1040
    evs = list(range(1, 65))
    for k in range(n):
        events.append((10 + 2 * k, (3, evs)))
    events.append((10 + 2 * 300 - 1, (1, egid, [e2])))
    events.sort(key=lambda x: x[0])
    return (0x1234, 1, egid, 0, 0, [(ev, bytes([ev & 1] * (ev % 3))) for ev in evs], events, 10 + 2 * n + 5, 400000)


def describe(sc):
    svc, major, egid, interval, resolve, values, events, end, fuel = sc
    return dict(service=svc, major=major, eventgroup=egid, interval=interval, resolve=resolve, values=[[ev, bytes(p).hex()] for ev, p in values],
                events=[[t, sexp.dumps(svcsim.sapi_sexp(c))] for t, c in events], end=end, fuel=fuel)


def undescribe(d):
    evs = []
    for t, s in d["events"]:
        v = sexp.loads(s)
        if v[0] in (0, 1):
            evs.append((t, (v[0], v[1], [(bool(e[0]), e[1], e[2]) for e in v[2]])))
        elif v[0] == 2:
            evs.append((t, (2, v[1], bytes(v[2]) if v[2] != [] else b"")))
        else:
            evs.append((t, (3, list(v[1]))))
    return (d["service"], d["major"], d["eventgroup"], d["interval"], d["resolve"], [(ev, bytes.fromhex(p)) for ev, p in d["values"]], evs, d["end"], d["fuel"])


def shrink(sc, fails):
    cur = sc
    budget = 60
    changed = True
    while changed and budget > 0:
        changed = False
        for i in range(len(cur[6])):
            budget -= 1
            if budget <= 0:
                break
            cand = cur[:6] + (cur[6][:i] + cur[6][i + 1:],) + cur[7:]
            try:
                if fails(cand):
                    cur, changed = cand, True
                    break
            except Exception:  # noqa: BLE001
                continue
    return cur


def judge(ctx, scs, known_codes):
    impl = [svcsim.run_impl(sc) for sc in scs]
    model = svcsim.run_model(ctx, scs)
    verdicts = ctx.model.batch([(3217, [svcsim.scenario_sexp(sc), [[t, e] for t, e in tr]]) for sc, (tr, _, _) in zip(scs, impl)])
    nev = 0
    for sc, (tr, comp, fin), (mtr, mcomp, mfin), v in zip(scs, impl, model, verdicts):
        nev += len(tr)
        if not comp or not mcomp:
            ctx.dist["incomplete-scenario"] += 1
            continue
        codes = sexp.loads(v) if v.startswith("(") else [98]
        bad = [c for c in codes if c not in known_codes]
        for c in codes:
            if c in known_codes:
                ctx.known_hit(known_codes[c])
        if bad:
            def fails(cand, bad0=bad[0]):
                t2, _, _ = svcsim.run_impl(cand)
                vv = ctx.model.call(3217, [svcsim.scenario_sexp(cand), [[t, e] for t, e in t2]])
                return bad0 in (sexp.loads(vv) if vv.startswith("(") else [98])
            small = shrink(sc, fails) if len(sc[6]) < 200 else sc
            t2, _, _ = svcsim.run_impl(small)
            ctx.violation("notifications: " + "; ".join(CODES.get(c, f"checker code {c}") for c in sorted(set(bad))),
                          dict(scenario=describe(small), implementation_trace=sexp.dumps(norm(t2))[:20000], checker_codes=bad))
        a, b = norm(tr), norm(mtr)
        if a != b or norm(fin) != norm(mfin):
            k = next((i for i, (x, y) in enumerate(zip(a, b)) if x != y), min(len(a), len(b)))
            d = describe(sc)
            if len(d["events"]) > 60:
                d["events"] = d["events"][:60] + ["..."]
            ctx.mismatch("service endpoint: trace of the implementation differs from the model",
                         dict(scenario=d, first_difference_at=k, implementation=(sexp.dumps(a[k])[:1500] if k < len(a) else "end of trace"),
                              model=(sexp.dumps(b[k])[:1500] if k < len(b) else "end of trace"), final_implementation=norm(fin), final_model=norm(mfin)))
        ctx.case(json.dumps(describe(sc), sort_keys=True) if len(sc[6]) < 200 else ("long", len(sc[6])), nontrivial=len(tr) > 0,
                 kind="cyclic" if sc[3] else "explicit",
                 sample=dict(scenario=describe(sc), trace=sexp.dumps(norm(tr))[:600]) if len(ctx.samples) < 2 and len(tr) > 2 and len(sc[6]) < 30 else None)
    ctx.notes["trace_events_compared"] = ctx.notes.get("trace_events_compared", 0) + nev


def norm(x):
    if isinstance(x, bool):
        return int(x)
    if isinstance(x, (list, tuple)):
        return [norm(y) for y in x]
    if x is None or x == b"":
        return []
    return x


def run(ctx):
    r = ctx.rng
    quick = ctx.tier == "quick"
    ctx.rule = ("timed sequences of client_subscribed / client_unsubscribed from 5 endpoints (IPv4 and IPv6), refused subscriptions (unknown eventgroup, 0 or 2 endpoints; judged directly also 0, 2, 3 endpoints of mixed transport protocols and families), "
                "value updates for 4 events, explicit notify_once for any subset (incl. an event without value), cyclic interval {none, 0.5, 0.75, 1 s}, address resolution "
                "delay {0, 1 tick, 1 ms}, times on the cyclic instants +-1 tick and anywhere; one long run that wraps a destination's session id through _notify_single; "
                "real SimpleService/SimpleEventgroup on the virtual-time loop vs the model (complete traces), implementation trace judged by check_C17; "
                "plus, judged directly: one service with TWO eventgroups and common subscribers (recipients per group, header, per-destination ids over both groups)")
    ctx.assumptions = ["explicit rounds are judged only when nothing else happens at the same instant (the endpoint snapshot is taken one hop later); the loop is never late"]
    n = 400 if quick else 15000
    scs = [undescribe(c["scenario"]) for c in load_corpus("C17") if "scenario" in c]
    for k in range(n):
        scs.append(scenario(r, distinct=(k % 5 != 0)))
    judge(ctx, scs, {})
    if True:
        judge(ctx, [wrap_scenario(r)], {})
        ctx.dist["session-id-wrap-run"] += 1
    two_groups(ctx, r, 60 if quick else 1500)
    refusals(ctx, 40 if quick else 1500)


def two_groups(ctx, r, n):
    """One SimpleService with TWO eventgroups and subscribers common to both (the loop model has one eventgroup): random
    subscribe / unsubscribe / explicit rounds on either group; every notification must carry the service's ids, reach exactly
    the endpoints subscribed to ITS group at that moment, and the session ids of one destination count 1, 2, 3, ... over
    BOTH groups.  Judged directly (no model): each step is awaited before the next."""
    import asyncio
    import ipaddress
    import someip.header as H
    import someip.sd as S
    import someip.service as SV
    for k in range(n):
        loop = asyncio.new_event_loop()
        asyncio.set_event_loop(loop)
        try:
            async def gai(host, port, **kw):
                return [(None, None, None, None, (host, port))]
            loop.getaddrinfo = gai
            sent = []

            class T:
                def sendto(self, data, addr=None):
                    sent.append((bytes(data), addr))

                def get_extra_info(self, key):
                    return ("192.0.2.1", 30501)

            async def go():
                cls = type("VerifService2", (SV.SimpleService,), dict(service_id=0x4242, version_major=1, version_minor=0))
                svc = cls(1)
                svc.log.disabled = True
                svc.transport = T()
                egs = {}
                for egid in (5, 6):
                    eg = SV.SimpleEventgroup(svc, egid)
                    eg.log.disabled = True
                    eg.values[egid * 16 + 1] = bytes([egid])
                    eg.values[egid * 16 + 2] = b""
                    svc.register_eventgroup(eg)
                    egs[egid] = eg
                eps = [H.IPv4EndpointOption(address=ipaddress.IPv4Address("10.0.0.%d" % (i + 1)), l4proto=H.L4Protocols.UDP, port=4000) for i in range(2)]
                eps.append(H.IPv6EndpointOption(address=ipaddress.IPv6Address("2001:db8::7"), l4proto=H.L4Protocols.UDP, port=4001))
                subscribed = {5: set(), 6: set()}
                steps, problems = [], []
                for _ in range(r.randint(4, 14)):
                    egid = r.choice([5, 6])
                    ep = r.choice(eps)
                    c = r.random()
                    before = len(sent)
                    sub = S.EventgroupSubscription(service_id=0x4242, instance_id=1, major_version=1, id=egid, counter=0, ttl=3, endpoints=frozenset([ep]))
                    if c < 0.45 and ep not in subscribed[egid]:
                        svc.client_subscribed(sub, ("10.0.0.1", 30490))
                        subscribed[egid].add(ep)
                        want = {(str(ep.address), ep.port)}
                        steps.append(("subscribe", egid, str(ep.address)))
                    elif c < 0.6 and ep in subscribed[egid]:
                        svc.client_unsubscribed(sub, ("10.0.0.1", 30490))
                        subscribed[egid].discard(ep)
                        want = set()
                        steps.append(("unsubscribe", egid, str(ep.address)))
                    else:
                        egs[egid].notify_once([egid * 16 + 1])
                        want = {(str(e.address), e.port) for e in subscribed[egid]}
                        steps.append(("notify", egid))
                    for _ in range(6):
                        await asyncio.sleep(0)
                    got = [a for _, a in sent[before:]]
                    if sorted(set(got)) != sorted(want) or len(got) != len(want):
                        problems.append("step %r: notified %r, subscribed to that group %r" % (steps[-1], sorted(got), sorted(want)))
                return steps, problems
            steps, problems = loop.run_until_complete(go())
            per = {}
            for data, addr in sent:
                rest = data
                while rest:
                    m, rest = H.SOMEIPHeader.parse(rest)
                    if (m.service_id, m.interface_version, m.message_type, m.return_code, m.client_id) != (0x4242, 1, H.SOMEIPMessageType.NOTIFICATION, H.SOMEIPReturnCode.E_OK, 0):
                        problems.append("notification header: %r" % (m,))
                    per.setdefault(addr, []).append(m.session_id)
            for addr, ids in per.items():
                if ids != list(range(1, len(ids) + 1)):
                    problems.append("session ids to %r are %r, expected 1..%d" % (addr, ids[:12], len(ids)))
            if problems:
                ctx.violation("service with two eventgroups and common subscribers: " + problems[0], dict(steps=[list(s) for s in steps], problems=problems[:6]))
            ctx.case(("two-groups", tuple(steps)), nontrivial=bool(sent), kind="two-eventgroups")
        finally:
            asyncio.set_event_loop(None)
            loop.close()


def refusals(ctx, n):
    """Subscriptions naming other than exactly ONE endpoint - none, two or three, of one or several transport protocols
    (UDP + TCP, UDP + an unassigned protocol number), IPv4 and IPv6 mixed - and an unknown eventgroup: refused with
    NakSubscription, nothing sent, nobody added to the rounds.  Judged directly on the real SimpleService."""
    import asyncio
    import ipaddress
    import random
    import someip.header as H
    import someip.sd as S
    import someip.service as SV
    r = random.Random(ctx.seed * 7919 + 17)
    protos = [H.L4Protocols.UDP, H.L4Protocols.TCP, 0x7F]
    for k in range(n):
        loop = asyncio.new_event_loop()
        asyncio.set_event_loop(loop)
        try:
            async def gai(host, port, **kw):
                return [(None, None, None, None, (host, port))]
            loop.getaddrinfo = gai
            sent = []

            class T:
                def sendto(self, data, addr=None):
                    sent.append((bytes(data), addr))

                def get_extra_info(self, key):
                    return ("192.0.2.1", 30501)

            def ep(i):
                if r.random() < 0.3:
                    return H.IPv6EndpointOption(address=ipaddress.IPv6Address("2001:db8::%d" % (i + 1)), l4proto=r.choice(protos), port=4000 + i)
                return H.IPv4EndpointOption(address=ipaddress.IPv4Address("10.0.0.%d" % (i + 1)), l4proto=r.choice(protos), port=4000 + i)

            async def go():
                cls = type("VerifService3", (SV.SimpleService,), dict(service_id=0x4242, version_major=1, version_minor=0))
                svc = cls(1)
                svc.log.disabled = True
                svc.transport = T()
                eg = SV.SimpleEventgroup(svc, 5)
                eg.log.disabled = True
                eg.values[1] = b"x"
                svc.register_eventgroup(eg)
                good = H.IPv4EndpointOption(address=ipaddress.IPv4Address("10.0.0.9"), l4proto=H.L4Protocols.UDP, port=4009)
                svc.client_subscribed(S.EventgroupSubscription(service_id=0x4242, instance_id=1, major_version=1, id=5, counter=0, ttl=3, endpoints=frozenset([good])), ("10.0.0.9", 30490))
                await asyncio.sleep(0)
                await asyncio.sleep(0)
                base = len(sent)
                kind = r.choice(["none", "two", "two", "two", "three", "unknown-group"])
                eps = {"none": [], "two": [ep(0), ep(1)], "three": [ep(0), ep(1), ep(2)], "unknown-group": [ep(0)]}[kind]
                if kind == "two" and r.random() < 0.5:
                    eps = [H.IPv4EndpointOption(address=ipaddress.IPv4Address("10.0.0.1"), l4proto=H.L4Protocols.UDP, port=4000),
                           H.IPv4EndpointOption(address=ipaddress.IPv4Address("10.0.0.1"), l4proto=r.choice([H.L4Protocols.TCP, 0x7F]), port=r.choice([4000, 4001]))]
                if len(set(eps)) != len(eps):
                    return None
                sub = S.EventgroupSubscription(service_id=0x4242, instance_id=1, major_version=1, id=6 if kind == "unknown-group" else 5, counter=0, ttl=3, endpoints=frozenset(eps))
                refused = False
                try:
                    svc.client_subscribed(sub, ("10.0.0.1", 30490))
                except S.NakSubscription:
                    refused = True
                await asyncio.sleep(0)
                await asyncio.sleep(0)
                eg.notify_once([1])
                for _ in range(4):
                    await asyncio.sleep(0)
                later = sorted(set(a for _, a in sent[base:]))
                return kind, [repr(e) for e in eps], refused, later
            res = loop.run_until_complete(go())
            if res is None:
                continue
            kind, eps, refused, later = res
            if not refused or later != [("10.0.0.9", 4009)]:
                ctx.violation("a subscription naming other than exactly one endpoint (or an unknown eventgroup) was not refused, or changed who is notified",
                              dict(kind=kind, endpoints=eps, refused=refused, notified_afterwards=[list(a) for a in later]))
            ctx.case(("refusal", k, kind, tuple(eps)), kind="refusal-" + kind)
        finally:
            asyncio.set_event_loop(None)
            loop.close()


def replay(ctx, rp):
    sc = undescribe(rp["scenario"])
    tr, comp, fin = svcsim.run_impl(sc)
    (mtr, mcomp, mfin), = svcsim.run_model(ctx, [sc])
    print("implementation trace:", sexp.dumps(norm(tr))[:6000])
    print("model trace:         ", sexp.dumps(norm(mtr))[:6000])
    v = ctx.model.call(3217, [svcsim.scenario_sexp(sc), [[t, e] for t, e in tr]])
    print("checker verdict on the implementation trace:", v)
    return 0 if v == "()" and norm(tr) == norm(mtr) else 1
