"""C14 - client subscription messages mirror the requested subscription set."""
from .. import scen, stackprop

CODES = {1: "an ideal server applying the sent Subscribe/StopSubscribe entries does not end up with the requested set",
         2: "a Subscribe entry has wrong ids / TTL / endpoint option or went to a server it was not requested for",
         3: "a requested subscription was not renewed within the refresh interval", 98: "a transmitted datagram did not decode"}


def run(ctx):
    r = ctx.rng
    quick = ctx.tier == "quick"
    ctx.rule = ("sequences of subscribe / stop-subscribe (no duplicate subscribes) / start / stop of the subscriber for 3 eventgroups (IPv4/IPv6 local endpoints, "
                "UDP/TCP) x 2 servers at times on refresh instants, +-1 tick and anywhere, refresh intervals {None,1,2,3 s}; complete traces compared with the "
                "model; implementation trace judged by check_C14; non-trivial = distinct scenario producing at least one transmission")
    ctx.assumptions = ["no duplicate subscribe of the same eventgroup to the same server (the property's proviso)"]
    n = 300 if quick else 10000
    scs = stackprop.corpus_scenarios("C14") + [scen.subscriber_scenario(r) for _ in range(n)]
    stackprop.run_scenarios(ctx, scs, 3014, CODES, what="subscriber")


def replay(ctx, rp):
    return stackprop.replay(ctx, rp, 3014)
