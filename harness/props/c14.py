"""C14 - client subscription messages mirror the requested subscription set."""
import random

from .. import scen, stackprop

CODES = {1: "an ideal server applying the sent Subscribe/StopSubscribe entries does not end up with the requested set",
         2: "a Subscribe entry has wrong ids / TTL / endpoint option or went to a server it was not requested for",
         3: "a requested subscription was not renewed within the refresh interval", 98: "a transmitted datagram did not decode"}


def directed_mid_round(r):
    """Eventgroups requested from THREE servers; at the start instant or a refresh instant the application stops one of
    them one, two or three loop iterations into the instant (ApiSoon) - while the round that renews the subscriptions
    is under way if the round takes more than one iteration."""
    from .. import conv
    T = scen.T
    cfg = list(scen.timings(r))
    cfg[11] = r.choice([0, 0, 5 * scen.MS])
    refresh = r.choice([None, T, T])
    cfg[10] = refresh
    cfg[9] = 0xFFFFFF if refresh is None else r.choice([3, 0xFFFFFF])
    gs = r.sample(scen.EGS, 3) if len(scen.EGS) >= 3 else [scen.EGS[0]] * 3
    events = [(0, (1, [9, conv.s_eg(g), srv])) for g, srv in zip(gs, (1, 2, 3))]
    t_start = r.choice([0, 1, T // 4])
    events.append((t_start, (1, [11])))
    when = t_start if refresh is None or r.random() < 0.4 else t_start + refresh * r.choice([1, 2])
    victim = r.choice([0, 1, 2, 2, 2])
    hops = r.choice([22, 23, 23, 24])
    events.append((when, (1, [hops, [10, conv.s_eg(gs[victim]), victim + 1, True]])))
    end = when + 4 * T
    if r.random() < 0.5:
        events.append((when + 2 * T + r.choice([0, 1]), (1, [12, True])))
    return dict(cfg=tuple(cfg), insts=[], draws=[], events=sorted(events, key=lambda e: e[0]), end=end, rev=r.random() < 0.3, fuel=20000)


def directed_resubscribe_burst(r):
    """While the subscriber runs, ONE instant holds subscribe X, stop-subscribe A, subscribe A (A requested before or first
    requested in that very instant) for one server: the deferred transmissions must leave in the order of the calls."""
    from .. import conv
    T = scen.T
    cfg = list(scen.timings(r))
    cfg[11] = r.choice([0, 0, 5 * scen.MS])
    refresh = r.choice([None, None, T, 2 * T])
    cfg[10] = refresh
    cfg[9] = 0xFFFFFF if refresh is None else r.choice([3, 0xFFFFFF])
    ga, gx = r.sample(scen.EGS, 2)
    srv = r.choice([1, 2])
    events = [(0, (1, [11]))]
    before = r.random() < 0.6
    if before:
        events.append((r.choice([0, 1, T // 4]), (1, [9, conv.s_eg(ga), srv])))
    t = r.choice([T // 2, T, T + 1] + ([refresh, refresh + 1] if refresh else []))
    burst = []
    if r.random() < 0.7:
        burst.append([9, conv.s_eg(gx), r.choice([srv, srv, 3 - srv])])
    if not before:
        burst.append([9, conv.s_eg(ga), srv])
    burst += [[10, conv.s_eg(ga), srv, True], [9, conv.s_eg(ga), srv]]
    if r.random() < 0.3:
        burst += [[10, conv.s_eg(ga), srv, True]]
    events += [(t, (1, c)) for c in burst]
    if r.random() < 0.3:
        events.append((t + 2 * T, (1, [12, True])))
    return dict(cfg=tuple(cfg), insts=[], draws=[], events=events, end=t + 4 * T, rev=r.random() < 0.3, fuel=20000)


def directed_twin_servers(r):
    """Eventgroups requested from TWO servers whose sockaddrs agree in host and port and differ in the IPv6 scope id (301,
    302) and from an ordinary third one - before and after the start, across refresh rounds, a stop-subscribe, stop and restart:
    every server holds exactly what was requested from IT."""
    from .. import conv
    T = scen.T
    cfg = list(scen.timings(r))
    cfg[11] = r.choice([0, 0, 5 * scen.MS])
    refresh = r.choice([None, T, 2 * T])
    cfg[10] = refresh
    cfg[9] = 0xFFFFFF if refresh is None else r.choice([3, 0xFFFFFF])
    gs = r.sample(scen.EGS, 3)
    pairs = [(gs[0], 301), (gs[1], 302), (gs[2], r.choice([1, 301, 302]))]
    if r.random() < 0.5:
        pairs.append((gs[0], 302))
    events = []
    t_start = r.choice([0, 1, T // 4])
    for g, srv in pairs:
        events.append((r.choice([0, 0, t_start, t_start + T // 2, t_start + T + 1]), (1, [9, conv.s_eg(g), srv])))
    events.append((t_start, (1, [11])))
    t = t_start + r.choice([2, 3]) * T
    if r.random() < 0.5:
        g, srv = r.choice(pairs)
        events.append((t, (1, [10, conv.s_eg(g), srv, True])))
        t += T
    if r.random() < 0.6:
        events.append((t, (1, [12, True])))
        if r.random() < 0.5:
            events.append((t + T, (1, [11])))
            t += 2 * T
    events.sort(key=lambda e: e[0])
    return dict(cfg=tuple(cfg), insts=[], draws=[], events=events, end=t + 3 * T, rev=r.random() < 0.3, fuel=20000)


def run(ctx):
    r = ctx.rng
    quick = ctx.tier == "quick"
    ctx.rule = ("sequences of subscribe / stop-subscribe (no duplicate subscribes) / start / stop of the subscriber for 3 eventgroups (IPv4/IPv6 local endpoints, "
                "UDP/TCP) x 2 servers at times on refresh instants, +-1 tick and anywhere, refresh intervals {None,1,2,3 s}; complete traces compared with the "
                "model; implementation trace judged by check_C14; every fifth scenario: eventgroups at THREE servers and an application stop-subscribe made one, two "
                "or three loop iterations into the start / refresh instant (ApiSoon); bursts subscribe X / stop-subscribe A / subscribe A in ONE instant; two servers that agree in host and port (IPv6 scope ids); non-trivial = distinct scenario producing at least one transmission")
    ctx.assumptions = ["no duplicate subscribe of the same eventgroup to the same server (the property's proviso)"]
    n = 300 if quick else 10000
    scs = stackprop.corpus_scenarios("C14") + [directed_mid_round(r) if k % 5 == 3 else scen.subscriber_scenario(r) for k in range(n)]
    r2 = random.Random(ctx.seed * 7919 + 14)      # a stream of its own: the scenarios above stay what they were
    scs += [directed_resubscribe_burst(r2) for _ in range(40 if quick else 1500)]
    r3 = random.Random(ctx.seed * 7919 + 114)
    scs += [directed_twin_servers(r3) for _ in range(30 if quick else 1000)]
    stackprop.run_scenarios(ctx, scs, 3014, CODES, what="subscriber")


def replay(ctx, rp):
    return stackprop.replay(ctx, rp, 3014)
