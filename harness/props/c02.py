"""C02 - SD messages round-trip: every entry keeps exactly its own options."""
import asyncio
import dataclasses

import someip.header as H
import someip.sd as S

from .. import conv, gen, sexp
from ..common import compare, incoq_crosscheck, load_corpus


def representable(h):
    """The property's side condition, evaluated on the message itself."""
    for e in h.entries:
        if len(e.options_1) > 15 or len(e.options_2) > 15:
            return False
    return True


class Transport:
    def __init__(self):
        self.sent = []

    def sendto(self, data, addr=None):
        self.sent.append((bytes(data), addr))


def run(ctx):
    r = ctx.rng
    quick = ctx.tier == "quick"
    ctx.rule = ("structured SD messages: 0-20 entries of all four types, 0-17 options per run drawn from a pool of 0-20 (sometimes 100/255/256/300) distinct "
                "options of all kinds (IPv4/IPv6 endpoint, multicast, SD-endpoint, load balancing, configuration strings with/without values and '=' in "
                "the value, unknown types), runs taken as windows of the pool so that they are shared / repeated / overlapping / partially overlapping; "
                "boundary field values; out-of-width fields; each message goes through assign_option_indexes, build, parse, resolve_options (each step "
                "compared with the model; indexes and shared array compared exactly) and through send_sd -> bytes -> receive path; the implementation's "
                "bytes are judged by the extracted independent decoder check_C02; non-trivial = distinct message with at least one entry")
    ctx.assumptions = ["entries have either all four index fields set or none (the two shapes the library produces)",
                       "configuration keys non-empty ASCII without '=', strings <= 255 bytes, unknown flag bits within the six undefined ones (the property's domain)"]
    cases, impl, descr = [], [], []
    judged = []
    corpus = [conv.d_sd(sexp.loads(c["message_sexp"])) for c in load_corpus("C02")]
    n = 500 if quick else 20000
    for k in range(-len(corpus), n):
        h = corpus[k + len(corpus)] if k < 0 else gen.sd_header(r)
        if r.random() < 0.06 and h.entries:
            # a numeric field beyond its wire width
            i = r.randrange(len(h.entries))
            f = r.choice(["service_id", "instance_id", "major_version", "ttl", "minver_or_counter"])
            w = {"service_id": 16, "instance_id": 16, "major_version": 8, "ttl": 24, "minver_or_counter": 32}[f]
            es = list(h.entries)
            es[i] = dataclasses.replace(es[i], **{f: (1 << w) + r.choice([0, 1, 77])})
            h = dataclasses.replace(h, entries=tuple(es))
        if r.random() < 0.05 and h.entries:
            # a Subscribe / SubscribeAck whose counter does not fit its 4 bits (the 32-bit value field has 12 reserved bits there)
            i = r.randrange(len(h.entries))
            if h.entries[i].sd_type in (H.SOMEIPSDEntryType.Subscribe, H.SOMEIPSDEntryType.SubscribeAck):
                es = list(h.entries)
                es[i] = dataclasses.replace(es[i], minver_or_counter=r.choice([16 << 16, (16 << 16) | 5, 0x100000, 0x80000000, 0xFFFFFFFF, (r.getrandbits(12) or 1) << 20 | r.getrandbits(20)]))
                h = dataclasses.replace(h, entries=tuple(es))
        sh = conv.s_sd(h)
        a_res = conv.s_res(lambda: h.assign_option_indexes(), conv.s_sd)
        cases.append((205, sh)); impl.append(a_res); descr.append(("assign", k))
        kind = "npool-many" if len(h.entries) and any(len(e.options_1) == 15 for e in h.entries) and len(h.entries) > 6 else "structured"
        if a_res[0] != 0:
            ctx.violation("assign_option_indexes raised", dict(message=sexp.dumps(sh)[:3000], error=a_res[1]))
            continue
        assigned = h.assign_option_indexes()
        b_res = conv.s_res(lambda: bytes(assigned.build()))
        cases.append((207, conv.s_sd(assigned))); impl.append(b_res); descr.append(("build", k))
        cases.append((209, sh)); impl.append(b_res); descr.append(("encode", k))
        if b_res[0] == 0:
            wire = b_res[1]
            judged.append((sh, wire, k))
            p_res = conv.s_res(lambda: H.SOMEIPSDHeader.parse(wire), lambda v: [conv.s_sd(v[0]), bytes(v[1])])
            cases.append((208, wire)); impl.append(p_res); descr.append(("parse", k))
            ok = False
            if p_res[0] == 0:
                parsed, rest = H.SOMEIPSDHeader.parse(wire)
                rr = conv.s_res(lambda: parsed.resolve_options(), conv.s_sd)
                cases.append((206, conv.s_sd(parsed))); impl.append(rr); descr.append(("resolve", k))
                if rr[0] == 0:
                    back = parsed.resolve_options()
                    ok = (rest == b"" and back.entries == h.entries and back.flag_reboot == h.flag_reboot
                          and back.flag_unicast == h.flag_unicast and back.flags_unknown == h.flags_unknown
                          and all(x.options_1 == y.options_1 and x.options_2 == y.options_2 for x, y in zip(back.entries, h.entries)))
            if not ok:
                ctx.violation("encode then decode+resolve does not give back the message (entries / option runs / flags)",
                              dict(message=sexp.dumps(sh)[:6000], wire=wire.hex()[:6000], representable=representable(h)))
        else:
            kind = "encode-error"
            if b_res[1] not in (4, 5):
                ctx.violation("encoding failed with an unexpected exception type", dict(message=sexp.dumps(sh)[:3000], error=b_res[1]))
        ctx.case(sexp.dumps(sh), nontrivial=len(h.entries) > 0, kind=kind,
                 sample=dict(message=sexp.dumps(sh)[:400], wire=(b_res[1].hex()[:200] if b_res[0] == 0 else "error")) if k in (2, 5) else None)
    # _find pinned directly (skip table included)
    for k in range(300 if quick else 8000):
        pool = gen.option_pool(r, r.randint(1, 4))
        hay = [r.choice(pool) for _ in range(r.randint(0, 14))]
        if r.random() < 0.6 and hay:
            i = r.randrange(len(hay)); needle = hay[i:i + r.randint(1, 4)]
            if r.random() < 0.3:
                needle = needle + [r.choice(pool)]
        else:
            needle = [r.choice(pool) for _ in range(r.randint(1, 4))]
        res = H._find(hay, tuple(needle))
        cases.append((211, [[conv.s_opt(o) for o in hay], [conv.s_opt(o) for o in needle]]))
        impl.append([0, None if res is None else [res]]); descr.append(("find", k))
        if res is not None and tuple(hay[res:res + len(needle)]) != tuple(needle):
            ctx.violation("_find returned an index at which the run does not occur", dict(haystack=len(hay), needle=len(needle), index=res))
        ctx.case(("find", sexp.dumps(cases[-1][1])), kind="find")
    # send_sd -> bytes -> receive path (the composition the stack uses)
    loop = asyncio.new_event_loop()
    asyncio.set_event_loop(loop)
    try:
        for k in range(60 if quick else 1500):
            h = gen.sd_header(r, maxrun=15)
            if not h.entries:
                continue
            prot = S.ServiceDiscoveryProtocol(("224.224.224.245", 30490))
            prot.log.disabled = True
            prot.transport = Transport()
            try:
                prot.send_sd(list(h.entries), remote=("10.0.0.7", 30490))
            except Exception as exc:  # noqa: BLE001
                if any(len(o.build()) > 0xFFFF + 3 for e in h.entries for o in e.options):
                    continue
                res = conv.s_res(lambda: bytes(dataclasses.replace(h, flags_unknown=0, flag_unicast=True, flag_reboot=True).assign_option_indexes().build()))
                if res[0] == 0:
                    ctx.violation("send_sd raised for an encodable message", dict(message=sexp.dumps(conv.s_sd(h))[:3000], error=repr(exc)))
                continue
            data, dest = prot.transport.sent[0]
            got = []
            rx = S.ServiceDiscoveryProtocol(("224.224.224.245", 30490))
            rx.log.disabled = True
            rx.sd_message_received = lambda sdhdr, addr, mc: got.append(sdhdr)
            rx.datagram_received(data, ("10.0.0.8", 30490), False)
            if len(got) != 1 or got[0].entries != h.entries or not all(x.options_1 == y.options_1 and x.options_2 == y.options_2 for x, y in zip(got[0].entries, h.entries)):
                ctx.violation("send_sd -> receive path does not deliver the entries with their own options", dict(message=sexp.dumps(conv.s_sd(h))[:4000], datagram=data.hex()[:4000]))
            ctx.case(("stack", data), kind="send_sd-receive")
    finally:
        asyncio.set_event_loop(None)
        loop.close()
    outs = compare(ctx, cases, impl, "SD assign/build/parse/resolve/_find differs from Model/SdCodec.v", lambda i: repr(descr[i]))
    ver = ctx.model.batch([(213, [sh, wire]) for sh, wire, _ in judged])
    for (sh, wire, k), v in zip(judged, ver):
        if v != "1":
            ctx.violation("the emitted bytes do not decode (independent SOME/IP-SD decoder) to the original entries with their option runs",
                          dict(message=sexp.dumps(sh)[:6000], wire=wire.hex()[:6000]))
    ctx.notes["independent_decoder_judged"] = len(judged)
    incoq_crosscheck(ctx, cases, outs, limit=60 if quick else 300)
