"""C04 - two SD stacks converge: offers are discovered, subscriptions established."""
import json

from .. import conv, scen, sexp, sim, syssim
from ..common import load_corpus

T = 1 << 20
MS = T // 1024

CODES = {1: "after the settle bound the watcher's listener view differs from 'the offerer is offering'",
         2: "the watcher's listener view still changes after the settle bound",
         3: "after the settle bound the offerer's listener view differs from 'offered and the watcher is running'",
         4: "the offerer's listener view still changes after the settle bound", 98: "checker could not decode"}

SVC = scen.SERVICES[0]            # 0x1111 / instance 1 / major 1 / minor 7, eventgroups {5, 6}
EG = scen.EGS[0]                  # eventgroup 5 of that service, local endpoint 10.0.0.9:4100 UDP
A_ADDR, B_ADDR = 1, 2


def config(r, forever=False):
    """(timings of the offerer, timings of the watcher): finite TTLs longer than the periods (the property's domain)."""
    collect = r.choice([0, 0, 5 * MS])
    imin = r.choice([0, 10 * MS])
    imax = imin + r.choice([0, 50 * MS])
    rr_min = r.choice([0, 10 * MS])
    rr_max = rr_min + r.choice([0, 40 * MS])
    rep = r.choice([0, 1, 2, 3])
    base = r.choice([10 * MS, 30 * MS])
    cyc = r.choice([T // 2, T, T])
    if forever:
        attl, sttl, refresh = 0xFFFFFF, 0xFFFFFF, r.choice([None, T])
        if r.random() < 0.25:
            cyc = 0          # non-cyclic offerer: offers only in its initial and repetition phases, then answers FindService
    else:
        attl = r.choice([2, 3])
        sttl = r.choice([2, 3, 5])
        refresh = r.choice([T // 2, T])
    def t(c):
        return (imin, imax, rr_min, rr_max, rep, base, cyc, 3, attl, sttl, refresh, c)
    return t(collect), t(r.choice([0, collect]))


def phase_instants(ca, d0):
    imin, imax, rr_min, rr_max, rep, base, cyc = ca[:7]
    ts = [d0]
    for i in range(rep):
        ts.append(ts[-1] + (1 << i) * base)
    ts += [ts[-1] + cyc, ts[-1] + 2 * cyc]
    return ts


def scenario(r, forever=False, calm=False):
    ca, cb = config(r, forever)
    d0a = r.choice([ca[0], ca[1]])
    d0b = r.choice([cb[0], cb[1]])
    na = (A_ADDR, ca, [(1, conv.s_service(SVC), [])], [d0a] * 8, [[17, 1], [0]])
    nb = (B_ADDR, cb, [], [d0b] * 8, [[3, conv.s_service(EG.as_service()), [0, 0]], [7, conv.s_eg(EG)], [0]])
    latency = r.choice([1, 1, MS, 3 * MS])
    events = [(0, False, (2,)), (r.choice([0, 0, 1, T // 4]), True, (2,))]
    instants = phase_instants(ca, d0a)
    horizon = 4 * T
    state = {False: [True, True], True: [True, True]}   # alive, started
    n = 0 if calm else r.randint(1, 6)
    ts = []
    for _ in range(n):
        c = r.random()
        if c < 0.5:
            t = r.choice(instants) + r.choice([-1, 0, 0, 1, latency, latency + 1, 2 * latency, 2 * latency + 1])
        elif c < 0.7:
            t = r.randrange(1, horizon, T // 8)
        else:
            t = r.randrange(1, horizon)
        ts.append(max(2, t))
    ts.sort()
    last = 1
    for t in ts:
        t = max(t, last + 1)       # one control event per instant
        last = t
        b = r.random() < 0.5
        alive, started = state[b]
        c = r.random()
        if not alive:
            events.append((t, b, (2,)))
            state[b] = [True, True]
        elif c < 0.35:
            events.append((t, b, (1,)))
            state[b] = [False, False]
        elif started:
            events.append((t, b, (0, [1])))
            state[b][1] = False
        else:
            events.append((t, b, (0, [0])))
            state[b][1] = True
    if forever:
        # infinite TTLs: nobody stays crashed or stopped at the end (the restarted / restarted peer sends SD messages)
        for b in (False, True):
            alive, started = state[b]
            last += T // 8
            if not alive:
                events.append((last, b, (2,)))
            elif not started:
                events.append((last, b, (0, [0])))
    decisions, fault_end = [], 0
    if not forever and not calm and r.random() < 0.6:
        fault_end = r.randrange(T // 4, horizon)
        for _ in range(r.randint(1, 40)):
            k = r.random()
            if k < 0.35:
                decisions.append([])
            elif k < 0.55:
                decisions.append([latency, latency + r.choice([0, 1, 50 * MS])])
            elif k < 0.8:
                decisions.append([r.choice([1, 20 * MS, 200 * MS, T // 2])])
            else:
                decisions.append([latency])
    sc0 = (na, nb, sorted(events, key=lambda e: e[0]), decisions, fault_end, latency, 0, r.random() < 0.3, 40000)
    # run long enough: settle bound as computed by the checker's formula + margin
    t_last = max([e[0] for e in events] + ([fault_end + max([max(d) for d in decisions if d] + [0])] if decisions else [0]))
    ttl = max([x * T for x in (ca[8], cb[9], cb[7]) if x != 0xFFFFFF] + [0])
    period = max(ca[6], cb[10] or 0)
    rep_total = lambda c: c[1] + (1 << c[4]) * c[5]
    slack = rep_total(ca) + rep_total(cb) + ca[3] + 2 * (ca[11] + cb[11]) + 4 * (latency + 1) + 16
    t_end = t_last + ttl + period + slack + T
    return sc0[:6] + (t_end,) + sc0[7:]


def directed_restart(r):
    """A peer crashes after having sent exactly k = 1..3 multicast/unicast messages and comes back: its first message after
    the restart repeats session id k' <= k with the reboot flag set (the boundary of the reboot detection)."""
    forever = r.random() < 0.6
    sc = scenario(r, forever=forever, calm=True)
    na, nb, events, decisions, fault_end, latency, t_end, rev, fuel = sc
    ca = na[1]
    d0a = na[3][0]
    inst = phase_instants(ca, max(ca[0], min(ca[1], d0a)))
    k = min(r.choice([1, 1, 2, 3]), len(inst) - 1)
    who = r.random() < 0.25
    # after the k-th offer has been sent (and possibly delivered), before the next one
    t1 = inst[k - 1] + ca[11] + r.choice([1, latency, latency + 1, 2 * latency + 2, (inst[k] - inst[k - 1]) // 2])
    t1 = min(t1, inst[k] + ca[11] - 1) if inst[k] + ca[11] - 1 > inst[k - 1] + ca[11] else t1
    t2 = t1 + r.choice([1, latency, T // 8, T, 3 * T])
    events = list(events) + [(t1, who, (1,)), (t2, who, (2,))]
    end = max(t_end, t2 + 6 * T)
    return (na, nb, sorted(events, key=lambda e: e[0]), [], 0, latency, end, rev, fuel)


def directed_lost_stop(r):
    """The offerer stops gracefully and its StopOffer is the one datagram that gets lost; it starts again before the
    watcher's stored offer runs out, so the watcher never sees the service go away: its Subscribe refreshes meet the
    stopped offerer (NACK) and must go on afterwards.  The position of the StopOffer among the datagrams is taken from a
    fault-free run of the same scenario."""
    for _ in range(20):
        sc = scenario(r, forever=False, calm=True)
        na, nb, events, decisions, fault_end, latency, t_end, rev, fuel = sc
        ca, cb = na[1], nb[1]
        inst = phase_instants(ca, max(ca[0], min(ca[1], na[3][0])))
        t1 = inst[-1] + r.choice([T // 8, T // 4, T // 2 + 3]) + r.choice([0, 1, 7])
        refresh = cb[10]
        t2 = t1 + refresh + r.choice([T // 8, T // 4]) + 4 * latency
        if t2 + ca[1] + T // 8 >= t1 - ca[6] + ca[8] * T:
            continue        # the watcher's stored offer would expire before the offerer offers again
        evs = sorted(list(events) + [(t1, False, (0, [1])), (t2, False, (0, [0]))], key=lambda e: e[0])
        log = []
        syssim.run_impl((na, nb, evs, [], 0, latency, t2, rev, fuel), sendlog=log)
        stops = [i for i, (t, who, mc, data) in enumerate(log) if who == 0 and mc and t >= t1 and t <= t1 + ca[11] + 1]
        if not stops:
            continue
        k = stops[0]
        dec = [[latency]] * k + [[]]
        end = t2 + max(ca[8], cb[9], cb[7]) * T + max(ca[6], refresh) + 3 * T
        return (na, nb, evs, dec, log[k][0] + 1, latency, max(end, t_end), rev, fuel)
    return scenario(r, calm=True)


def directed_quick_restart(r):
    """Infinite TTLs, no Subscribe refresh, a collection window > 0: the offerer is stopped gracefully and started again
    within the window (initial delay 0), so its StopOffer and its new Offer travel in ONE datagram - which is all the
    watcher ever learns about the restart."""
    sc = scenario(r, forever=True, calm=True)
    na, nb, events, decisions, fault_end, latency, t_end, rev, fuel = sc
    ca, cb = list(na[1]), list(nb[1])
    ca[0] = ca[1] = 0                    # initial delay 0
    ca[11] = 5 * MS                      # collection window of the offerer
    cb[10] = None                        # the watcher never refreshes its Subscribe
    na = (na[0], tuple(ca), na[2], [0] * 8, na[4])
    nb = (nb[0], tuple(cb), nb[2], nb[3], nb[4])
    inst = phase_instants(ca, 0)
    t1 = inst[-1] + r.choice([T // 8, T // 2]) + r.choice([0, 3])
    gap = r.choice([1, MS, 3 * MS, 5 * MS - 1, 5 * MS, 6 * MS, 20 * MS])
    evs = sorted(list(events) + [(t1, False, (0, [1])), (t1 + gap, False, (0, [0]))], key=lambda e: e[0])
    return (na, nb, evs, [], 0, latency, t1 + gap + 8 * T, rev, fuel)


def directed_noncyclic(r):
    """A NON-cyclic offerer (CYCLIC_OFFER_DELAY 0, infinite TTLs: after its repetition phase it only answers FindService
    entries) and a watcher that is stopped / crashed and comes back long after that phase: the answer to its FindService is
    then the only way it can learn of the service."""
    sc = scenario(r, forever=True, calm=True)
    na, nb, events, decisions, fault_end, latency, t_end, rev, fuel = sc
    ca = list(na[1])
    ca[6] = 0
    na = (na[0], tuple(ca), na[2], na[3], na[4])
    inst = phase_instants(ca, max(ca[0], min(ca[1], na[3][0])))
    t1 = inst[-1] + r.choice([T // 2, T, 3 * T])
    how = r.choice(["crash", "crash", "stop"])
    t2 = t1 + r.choice([1, T // 8, T])
    evs = list(events) + ([(t1, True, (1,)), (t2, True, (2,))] if how == "crash" else [(t1, True, (0, [1])), (t2, True, (0, [0]))])
    return (na, nb, sorted(evs, key=lambda e: e[0]), [], 0, latency, t2 + 8 * T, rev, fuel)


def describe(sc):
    na, nb, events, decisions, fault_end, latency, t_end, rev, fuel = sc
    def node(n):
        return dict(addr=n[0], cfg=list(n[1]), insts=[[i, sexp.dumps(s), list(rj)] for i, s, rj in n[2]], draws=n[3], init=[sexp.dumps(c) for c in n[4]])
    return dict(offerer=node(na), watcher=node(nb), events=[[t, "watcher" if b else "offerer", {0: "api " + sexp.dumps(c[1]) if c[0] == 0 else "", 1: "crash", 2: "restart"}[c[0]]] for t, b, c in events],
                decisions=decisions, fault_end=fault_end, latency=latency, end=t_end, rev=rev, fuel=fuel)


def undescribe(d):
    def node(n):
        return (n["addr"], tuple(n["cfg"]), [(i, sexp.loads(s), rj) for i, s, rj in n["insts"]], n["draws"], [sexp.loads(c) for c in n["init"]])
    evs = []
    for t, who, what in d["events"]:
        b = who == "watcher"
        if what == "crash":
            evs.append((t, b, (1,)))
        elif what == "restart":
            evs.append((t, b, (2,)))
        else:
            evs.append((t, b, (0, sexp.loads(what[4:]))))
    return (node(d["offerer"]), node(d["watcher"]), evs, d["decisions"], d["fault_end"], d["latency"], d["end"], d["rev"], d["fuel"])


def norm(x):
    return sim.norm(x)


def tr_sexp(tr):
    return [[t, ev] for t, ev in tr]


def shrink(sc, fails):
    cur = sc
    budget = 40
    changed = True
    while changed and budget > 0:
        changed = False
        cands = []
        for i in range(2, len(cur[2])):
            cands.append(cur[:2] + (cur[2][:i] + cur[2][i + 1:],) + cur[3:])
        if cur[3]:
            cands.append(cur[:3] + ([], 0) + cur[5:])
            cands.append(cur[:3] + (cur[3][: len(cur[3]) // 2], cur[4]) + cur[5:])
        for cand in cands:
            budget -= 1
            if budget <= 0:
                break
            try:
                if fails(cand):
                    cur, changed = cand, True
                    break
            except Exception:  # noqa: BLE001
                continue
    return cur


def judge(ctx, scs):
    impl = [syssim.run_impl(sc) for sc in scs]
    model = syssim.run_model(ctx, scs)
    verdicts = ctx.model.batch([(3304, [syssim.scenario_sexp(sc), tr_sexp(ta), tr_sexp(tb)]) for sc, (ta, tb, _, _, _) in zip(scs, impl)])
    nev = 0
    for sc, (ta, tb, comp, fa, fb), (mta, mtb, mcomp, mfa, mfb), v in zip(scs, impl, model, verdicts):
        nev += len(ta) + len(tb)
        if not comp or not mcomp:
            ctx.dist["incomplete-scenario"] += 1
            continue
        codes = sexp.loads(v) if v.startswith("(") else [98]
        if codes == [90]:
            ctx.dist["not-judged(outside domain / too short)"] += 1
            codes = []
        else:
            ctx.dist["judged"] += 1
        for c in codes:
            if c == 16:
                ctx.known_hit("F16")
            if c == 20:
                ctx.known_hit("F20")
            if c == 21:
                ctx.known_hit("F21")
        codes = [c for c in codes if c not in (16, 20, 21)]
        if codes:
            def fails(cand, bad0=codes[0]):
                a2, b2, _, _, _ = syssim.run_impl(cand)
                vv = ctx.model.call(3304, [syssim.scenario_sexp(cand), tr_sexp(a2), tr_sexp(b2)])
                return bad0 in (sexp.loads(vv) if vv.startswith("(") else [98])
            small = shrink(sc, fails)
            a2, b2, _, _, _ = syssim.run_impl(small)
            ctx.violation("two stacks: " + "; ".join(CODES.get(c, f"checker code {c}") for c in sorted(set(codes))),
                          dict(scenario=describe(small), offerer_trace=sexp.dumps(norm(a2))[:12000], watcher_trace=sexp.dumps(norm(b2))[:12000], checker_codes=codes))
        xa, xb, ya, yb = norm(ta), norm(tb), norm(mta), norm(mtb)
        if xa != ya or xb != yb or norm(fa) != norm(mfa) or norm(fb) != norm(mfb):
            which = "offerer" if xa != ya else "watcher" if xb != yb else "final state"
            a, b = (xa, ya) if xa != ya else (xb, yb)
            k = next((i for i, (x, y) in enumerate(zip(a, b)) if x != y), min(len(a), len(b)))
            ctx.mismatch("two stacks: trace of the implementation differs from the model (" + which + ")",
                         dict(scenario=describe(sc), first_difference_at=k, implementation=(sexp.dumps(a[k])[:1500] if k < len(a) else "end of trace"),
                              model=(sexp.dumps(b[k])[:1500] if k < len(b) else "end of trace"),
                              final_implementation=sexp.dumps([norm(fa), norm(fb)])[:1500], final_model=sexp.dumps([norm(mfa), norm(mfb)])[:1500]))
        kinds = "crash" if any(c[0] == 1 for _, _, c in sc[2]) else "stop/start" if len(sc[2]) > 2 else "calm"
        ctx.case(json.dumps(describe(sc), sort_keys=True), nontrivial=len(ta) + len(tb) > 4, kind=kinds + ("+faulty-network" if sc[3] else ""),
                 sample=dict(scenario=describe(sc), offerer_trace=sexp.dumps(xa)[:500]) if len(ctx.samples) < 2 else None)
    ctx.notes["trace_events_compared"] = ctx.notes.get("trace_events_compared", 0) + nev


def run(ctx):
    r = ctx.rng
    quick = ctx.tier == "quick"
    ctx.rule = ("two real ServiceDiscoveryProtocol stacks (offerer with one instance and a recording server listener; watcher with a recording client listener and "
                "find_subscribe_eventgroup) on two virtual-time loops and a simulated network (latency 1 tick..3 ms; inside a fault window per-datagram loss / duplication / "
                "delay up to 0.5 s = reordering), 1-6 control events per run (graceful stop/start, crash, restart of either side) placed at, one tick around and one/two "
                "latencies after every phase instant of the fault-free run and anywhere; timing grid with finite TTLs longer than the periods, plus infinite TTLs on a lossless "
                "network; both traces compared event by event with the composed model (Model/System.v); implementation traces judged by the extracted check_C04")
    ctx.assumptions = ["network latency >= 1 microtick (the two loops never interact within one instant)", "after the last disturbance the network is lossless with constant latency",
                       "settle bound = last disturbance + max finite TTL + max(cyclic period, refresh interval) + start-up phases + 4 latencies (check_C04 settle_bound)",
                       "infinite TTLs: nobody is left crashed or stopped (the restarted peer sends SD messages)", "the loop is never late (virtual time)"]
    n = 150 if quick else 6000
    scs = [undescribe(c["scenario"]) for c in load_corpus("C04") if "scenario" in c]
    for k in range(n):
        scs.append(directed_restart(r) if k % 4 == 3 else directed_lost_stop(r) if k % 10 == 6 else directed_quick_restart(r) if k % 10 == 2 else directed_noncyclic(r) if k % 10 == 8 else scenario(r, forever=(k % 5 == 4), calm=(k % 25 == 0)))
    judge(ctx, scs)


def replay(ctx, rp):
    sc = undescribe(rp["scenario"])
    ta, tb, comp, fa, fb = syssim.run_impl(sc)
    (mta, mtb, mcomp, mfa, mfb), = syssim.run_model(ctx, [sc])
    print("offerer trace (implementation):", sexp.dumps(norm(ta))[:5000])
    print("watcher trace (implementation):", sexp.dumps(norm(tb))[:5000])
    v = ctx.model.call(3304, [syssim.scenario_sexp(sc), tr_sexp(ta), tr_sexp(tb)])
    print("checker verdict on the implementation traces:", v, " model==implementation:", norm(ta) == norm(mta) and norm(tb) == norm(mtb))
    return 0 if v in ("()", "(90)", "(16)", "(20)", "(21)", "(21 21)") and norm(ta) == norm(mta) and norm(tb) == norm(mtb) else 1  # 16 = known finding F16
