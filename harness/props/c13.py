"""C13 - FindService is sent only for watched services not yet found, bounded in number."""
from .. import conv, scen, stackprop

CODES = {1: "a FindService was not sent to the multicast group", 2: "more find rounds than 1 + REPETITIONS_MAX", 3: "a find round at an instant outside the schedule",
         4: "a find entry differs from the watched ids / find TTL", 5: "a find was sent for a service with a known live offer", 6: "a find round omitted a watched service that is not found",
         98: "a transmitted datagram did not decode"}


def find_scenario(r):
    sc = scen.discovery_scenario(r)
    T = scen.T
    regs = []
    nf = r.randint(1, 4)
    for k, f in enumerate(r.sample(scen.FILTERS, nf)):
        regs.append((0, (1, [3, conv.s_service(f), [0, k % 3]])))
    ts = r.choice([0, 0, T // 2])
    evs = [(max(t, 1), ev) for t, ev in sc["events"] if ev[0] == 0]
    sc["events"] = sorted(regs + [(ts, (1, [13]))] + evs, key=lambda x: x[0])
    cfg = list(sc["cfg"])
    d0 = r.choice([cfg[0], cfg[1], (cfg[0] + cfg[1]) // 2])
    sc["draws"] = [d0] * 4
    # place offers around the round instants
    return sc


def run(ctx):
    r = ctx.rng
    quick = ctx.tier == "quick"
    ctx.rule = ("1-4 watched filters (with wildcards), timing grid (initial-delay window, 0-4 repetitions, base delay), offers / stop-offers / expiries for any subset at "
                "instants around the scheduled rounds (on, +-1 tick, anywhere), incl. offers that expire again between rounds; complete traces compared with the "
                "model; implementation trace judged by check_C13 (liveness of offers computed by the abstract TTL-store specification)")
    ctx.assumptions = ["no unwatch during the run (a filter without listeners is still searched for: observation O2, outside the domain)"]
    n = 300 if quick else 10000
    scs = stackprop.corpus_scenarios("C13") + [find_scenario(r) for _ in range(n)]
    stackprop.run_scenarios(ctx, scs, 3013, CODES, what="find client")


def replay(ctx, rp):
    return stackprop.replay(ctx, rp, 3013)
