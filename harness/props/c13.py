"""C13 - FindService is sent only for watched services not yet found, bounded in number."""
from .. import conv, scen, stackprop

CODES = {1: "a FindService was not sent to the multicast group", 2: "more find rounds than 1 + REPETITIONS_MAX", 3: "a find round at an instant outside the schedule",
         4: "a find entry differs from the watched ids / find TTL", 5: "a find was sent for a service with a known live offer", 6: "a find round omitted a watched service that is not found",
         7: "a FindService was sent after a round instant at which every watched service was found",
         98: "a transmitted datagram did not decode"}


def find_scenario(r):
    sc = scen.discovery_scenario(r)
    T = scen.T
    regs = []
    nf = r.randint(1, 4)
    for k, f in enumerate(r.sample(scen.FILTERS, nf)):
        regs.append((0, (1, [3, conv.s_service(f), [0, k % 3]])))
    ts = r.choice([0, 0, T // 2])
    evs = [(max(t, 1), ev) for t, ev in sc["events"] if ev[0] == 0]
    sc["events"] = sorted(regs + [(ts, (1, [13]))] + evs, key=lambda x: x[0])
    cfg = list(sc["cfg"])
    d0 = r.choice([cfg[0], cfg[1], (cfg[0] + cfg[1]) // 2])
    sc["draws"] = [d0] * 4
    # place offers around the round instants
    return sc


def find_directed(r):
    """An offer that is known at one round and gone again (StopOffer / TTL expiry / reboot / connection loss) before a later
    round, while another watched service stays unfound: the later round must search for it again."""
    T, MS = scen.T, scen.MS
    rep = r.choice([2, 3, 4])
    base = r.choice([T // 8, T // 4])
    imin = r.choice([0, 10 * MS])
    imax = imin + r.choice([0, 50 * MS])
    cfg = (imin, imax, 0, 0, rep, base, 0, r.choice([1, 3]), 3, 5, None, r.choice([0, 5 * MS]))
    d0 = r.choice([imin, imax])
    rounds = [d0]
    for i in range(rep):
        rounds.append(rounds[-1] + (1 << i) * base)
    filters = [scen.SERVICES[0], scen.SERVICES[2], scen.FILTERS[5]] if r.random() < 0.5 else [scen.FILTERS[0], scen.FILTERS[3], scen.FILTERS[5]]
    regs = [(0, (1, [3, conv.s_service(f), [0, k]])) for k, f in enumerate(filters[: r.choice([2, 3])])]
    peers = {a: scen.Peer(a) for a in (1, 2)}
    raw = []
    k = r.randrange(0, rep)                       # the offer is known at round k ...
    svc = r.choice([scen.SERVICES[0], scen.SERVICES[2]])
    a = r.choice([1, 2])
    t_on = max(1, rounds[k] - r.choice([1, base // 4, 5 * MS]))
    gone_by = r.randrange(k + 1, rep + 1)         # ... and gone before round gone_by
    lo, hi = rounds[gone_by - 1] + 1, rounds[gone_by] - 1
    how = r.choice(["stop", "stop", "ttl", "reboot", "connlost"])
    ttl = 3
    if how == "ttl":
        ttl = 1
        if not (lo <= t_on + T <= hi):
            how = "stop"
            ttl = 3
    raw.append((t_on, ("dg", a, [svc.create_offer_entry(ttl)])))
    t_off = r.randrange(lo, hi + 1) if hi >= lo else lo
    if how == "stop":
        raw.append((t_off, ("dg", a, [svc.create_offer_entry(0)])))
    elif how == "reboot":
        raw.append((t_off, ("reboot", a, [])))
    elif how == "connlost":
        raw.append((t_off, ("api", [2])))
    if r.random() < 0.3:
        raw.append((r.randrange(1, rounds[-1] + T // 4), ("dg", r.choice([1, 2]), [scen.SERVICES[1].create_offer_entry(r.choice([1, 3]))])))
    raw.sort(key=lambda x: x[0])
    events = list(regs) + [(0, (1, [13]))]
    for t, ev in raw:
        if ev[0] == "api":
            events.append((t, (1, ev[1])))
        else:
            if ev[0] == "reboot":
                peers[ev[1]].reboot()
            events.append((t, (0, ev[1], False, peers[ev[1]].datagram(ev[2], False))))
    return dict(cfg=cfg, insts=[], draws=[d0] * 4, events=events, end=rounds[-1] + 2 * T, rev=r.random() < 0.3, fuel=20000)


def all_found_early(r):
    """Every watched service is already known when the initial round is due (so the find phase ends there without sending);
    then one of them goes away before a later round instant: still no FindService may follow."""
    T, MS = scen.T, scen.MS
    rep = r.choice([1, 2, 3])
    base = r.choice([T // 8, T // 4])
    imin = r.choice([10 * MS, 20 * MS])
    imax = imin + r.choice([0, 50 * MS])
    cfg = (imin, imax, 0, 0, rep, base, 0, r.choice([1, 3]), 3, 5, None, r.choice([0, 5 * MS]))
    d0 = r.choice([imin, imax])
    rounds = [d0]
    for i in range(rep):
        rounds.append(rounds[-1] + (1 << i) * base)
    svcs = [scen.SERVICES[0], scen.SERVICES[2]][: r.choice([1, 2])]
    filters = [r.choice([s, type(s)(s.service_id)]) for s in svcs]
    regs = [(0, (1, [3, conv.s_service(f), [0, k]])) for k, f in enumerate(filters)]
    peers = {a: scen.Peer(a) for a in (1, 2)}
    raw = []
    for s in svcs:
        raw.append((r.randrange(1, d0), ("dg", r.choice([1, 2]), [s.create_offer_entry(3)])))
    gone = r.randrange(1, rep + 1)
    lo, hi = rounds[gone - 1] + 1, rounds[gone] - 1
    t_off = r.randrange(lo, hi + 1) if hi >= lo else lo
    how = r.choice(["stop", "stop", "connlost"])
    victim = r.randrange(len(svcs))
    if how == "stop":
        raw.append((t_off, ("dg", raw[victim][1][1], [svcs[victim].create_offer_entry(0)])))
    else:
        raw.append((t_off, ("api", [2])))
    raw.sort(key=lambda x: x[0])
    events = list(regs) + [(0, (1, [13]))]
    for t, ev in raw:
        if ev[0] == "api":
            events.append((t, (1, ev[1])))
        else:
            events.append((t, (0, ev[1], False, peers[ev[1]].datagram(ev[2], False))))
    return dict(cfg=cfg, insts=[], draws=[d0] * 4, events=events, end=rounds[-1] + 2 * T, rev=r.random() < 0.3, fuel=20000)


def find_two_offers(r):
    """ONE watched filter matched by TWO live offers (the same service from two peers, or two instances under a wildcard
    filter); one of them ends between rounds (StopOffer / TTL expiry / reboot), the other stays: the filter stays found.
    Another watched service is never offered, so the find phase goes on."""
    T, MS = scen.T, scen.MS
    rep = r.choice([2, 3, 4])
    base = r.choice([T // 8, T // 4])
    imin = r.choice([0, 10 * MS])
    imax = imin + r.choice([0, 50 * MS])
    cfg = (imin, imax, 0, 0, rep, base, 0, r.choice([1, 3]), 3, 5, None, r.choice([0, 5 * MS]))
    d0 = r.choice([imin, imax])
    rounds = [d0]
    for i in range(rep):
        rounds.append(rounds[-1] + (1 << i) * base)
    two_peers = r.random() < 0.5
    if two_peers:
        flt, offers = r.choice([scen.SERVICES[0], scen.FILTERS[0], scen.FILTERS[1]]), [(1, scen.SERVICES[0]), (2, scen.SERVICES[0])]
    else:
        flt, offers = scen.FILTERS[0], [(1, scen.SERVICES[0]), (1, scen.SERVICES[1])]
    regs = [(0, (1, [3, conv.s_service(flt), [0, 0]])), (0, (1, [3, conv.s_service(scen.FILTERS[5]), [0, 1]]))]
    peers = {a: scen.Peer(a) for a in (1, 2)}
    k = r.randrange(0, rep)
    gone_by = r.randrange(k + 1, rep + 1)
    lo, hi = rounds[gone_by - 1] + 1, rounds[gone_by] - 1
    raw = []
    victim = r.randrange(2)
    how = r.choice(["stop", "stop", "ttl", "reboot"]) if two_peers else r.choice(["stop", "stop", "ttl"])
    for j, (a, svc) in enumerate(offers):
        t_on = max(1, rounds[k] - r.choice([1, base // 4, 5 * MS]) - j)
        ttl = 0xFFFFFF
        if j == victim and how == "ttl":
            if lo <= t_on + T <= hi:
                ttl = 1
            else:
                how = "stop"
        raw.append((t_on, ("dg", a, [svc.create_offer_entry(ttl)])))
    t_off = r.randrange(lo, hi + 1) if hi >= lo else lo
    a, svc = offers[victim]
    if how == "stop":
        raw.append((t_off, ("dg", a, [svc.create_offer_entry(0)])))
    elif how == "reboot":
        raw.append((t_off, ("reboot", a, [])))
    raw.sort(key=lambda x: x[0])
    events = list(regs) + [(0, (1, [13]))]
    for t, ev in raw:
        if ev[0] == "reboot":
            peers[ev[1]].reboot()
        events.append((t, (0, ev[1], False, peers[ev[1]].datagram(ev[2], False))))
    return dict(cfg=cfg, insts=[], draws=[d0] * 4, events=events, end=rounds[-1] + 2 * T, rev=r.random() < 0.3, fuel=20000)


def find_offer_then_stop(r):
    """OfferService X followed by StopOffer X (and the reverse) in ONE message or in two datagrams of one instant, before a
    later round, while another watched service stays unfound: the entries count in the order received."""
    T, MS = scen.T, scen.MS
    rep = r.choice([2, 3])
    base = r.choice([T // 4, T // 2])
    cfg = (0, 0, 0, 0, rep, base, 0, 3, 3, 5, None, r.choice([0, 5 * MS]))
    rounds = [0]
    for i in range(rep):
        rounds.append(rounds[-1] + (1 << i) * base)
    flt = r.choice([scen.FILTERS[0], scen.SERVICES[0]])
    regs = [(0, (1, [3, conv.s_service(flt), [0, 0]])), (0, (1, [3, conv.s_service(scen.FILTERS[5]), [0, 1]]))]
    p = scen.Peer(1)
    svc = scen.SERVICES[0]
    k = r.randrange(0, rep)
    t = rounds[k] + r.choice([1, base // 4, base // 2])
    order = r.choice(["offer-stop", "offer-stop", "stop-offer", "offer-stop-offer"])
    ttl = r.choice([0xFFFFFF, 3])
    es = {"offer-stop": [svc.create_offer_entry(ttl), svc.create_offer_entry(0)], "stop-offer": [svc.create_offer_entry(0), svc.create_offer_entry(ttl)],
          "offer-stop-offer": [svc.create_offer_entry(ttl), svc.create_offer_entry(0), svc.create_offer_entry(ttl)]}[order]
    events = list(regs) + [(0, (1, [13]))]
    if r.random() < 0.6:
        events.append((t, (0, 1, r.random() < 0.3, p.datagram(es, False))))
    else:
        for e in es:
            events.append((t, (0, 1, False, p.datagram([e], False))))
    return dict(cfg=cfg, insts=[], draws=[0] * 4, events=events, end=rounds[-1] + 2 * T, rev=r.random() < 0.3, fuel=20000)


def run(ctx):
    r = ctx.rng
    quick = ctx.tier == "quick"
    ctx.rule = ("1-4 watched filters (with wildcards), timing grid (initial-delay window, 0-4 repetitions, base delay), offers / stop-offers / expiries for any subset at "
                "instants around the scheduled rounds (on, +-1 tick, anywhere), incl. offers that expire again between rounds, one filter matched by two live offers of which one ends, and every watched service being known before the initial round and lost again later; complete traces compared with the "
                "model; implementation trace judged by check_C13 (liveness of offers computed by the abstract TTL-store specification)")
    ctx.assumptions = ["no unwatch during the run (a filter without listeners is still searched for: observation O2, outside the domain)"]
    n = 300 if quick else 10000
    scs = stackprop.corpus_scenarios("C13") + [(all_found_early(r) if k % 4 == 1 else find_directed(r)) if k % 2 else find_scenario(r) for k in range(n)]
    import random
    r2 = random.Random(ctx.seed * 7919 + 13)      # a stream of its own: the scenarios above stay what they were
    scs += [find_two_offers(r2) for _ in range(40 if quick else 1500)]
    r3 = random.Random(ctx.seed * 7919 + 113)
    scs += [find_offer_then_stop(r3) for _ in range(30 if quick else 1000)]
    stackprop.run_scenarios(ctx, scs, 3013, CODES, what="find client")


def replay(ctx, rp):
    return stackprop.replay(ctx, rp, 3013)
