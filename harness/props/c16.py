"""C16 - method calls get exactly one correctly correlated reply."""
import itertools
import warnings

import someip.header as H
import someip.service as V

from .. import conv, gen, sexp
from ..common import compare, incoq_crosscheck

SVC, VER = 0x1234, 3
METHODS = [1, 0x7FFF]


class Transport:
    def __init__(self):
        self.sent = []

    def sendto(self, data, addr=None):
        self.sent.append((bytes(data), addr))

    def get_extra_info(self, key):
        return ("192.0.2.1", 30501)


def make_service(outcome, svc_id=None, ver=None, methods=None):
    class Svc(V.SimpleService):
        service_id = SVC if svc_id is None else svc_id
        version_major = VER if ver is None else ver
        version_minor = 1

    s = Svc(7)
    s.log.disabled = True
    s.transport = Transport()
    called = []

    def handler(msg, addr):
        called.append(msg)
        if outcome[0] == 0:
            return bytes(outcome[1])
        if outcome[0] == 2:
            raise V.MalformedMessageError
        return None

    for m in (METHODS if methods is None else methods):
        s.register_method(m, handler)
    return s, called


def run(ctx):
    r = ctx.rng
    quick = ctx.tier == "quick"
    ctx.rule = ("exhaustive over {service ok/not} x {interface version ok/not} x {method known/unknown} x all 10 message types x all 11 return "
                "codes x 3 handler outcomes x {unicast, multicast} with random ids/payloads on top; each case goes through "
                "SimpleService.message_received with a recording transport; the reply is compared with the model and judged by the extracted "
                "spec_reply (the property's table); sequences through ONE service object from seven senders (IPv4 / IPv6, same host other port, link-local addresses differing in scope id or flow label); the same message to several differently configured services of one process in turn; bursts of 12-40 mostly faulty messages of one sender; non-trivial = distinct (message, channel, handler outcome)")
    ctx.exhaustive = True
    ctx.assumptions = ["the handler is a function of the scenario (returns bytes / returns None / raises MalformedMessageError)"]
    addr = ("2001:db8::2", 30501, 0, 0)
    combos = list(itertools.product([True, False], [True, False], [True, False], list(H.SOMEIPMessageType), list(H.SOMEIPReturnCode), [0, 1, 2], [False, True]))
    extra = 1000 if quick else 30000
    cases, impl, descr = [], [], []
    for k in range(len(combos) + extra):
        if k < len(combos):
            sok, vok, mok, mt, rc, oc, mc = combos[k]
        else:
            sok, vok, mok = r.random() < 0.8, r.random() < 0.8, r.random() < 0.8
            mt = r.choice(list(H.SOMEIPMessageType)) if r.random() < 0.5 else r.choice([H.SOMEIPMessageType.REQUEST, H.SOMEIPMessageType.REQUEST_NO_RETURN])
            rc = r.choice(list(H.SOMEIPReturnCode)) if r.random() < 0.3 else H.SOMEIPReturnCode.E_OK
            oc, mc = r.choice([0, 0, 1, 2]), r.random() < 0.15
        outcome = [0, gen.payload(r, maxlen=300)] if oc == 0 else [oc]
        msg = H.SOMEIPHeader(
            service_id=SVC if sok else r.choice([0, SVC + 1, 0xFFFF]),
            method_id=r.choice(METHODS) if mok else r.choice([0, 2, 0x8001, 0xFFFF]),
            client_id=gen.id16(r), session_id=gen.id16(r),
            interface_version=VER if vok else r.choice([0, VER + 1, 0xFF]),
            message_type=mt, return_code=rc, payload=gen.payload(r, maxlen=64))
        svc, called = make_service(outcome)
        with warnings.catch_warnings():
            warnings.simplefilter("ignore")
            svc.message_received(msg, addr, mc)
        sent = svc.transport.sent
        arg = [SVC, VER, METHODS, conv.s_msg(msg), mc, outcome]
        if len(sent) > 1:
            ctx.violation("more than one reply to one message", dict(arg=sexp.dumps(arg), replies=len(sent)))
        reply = None
        if sent:
            data, dest = sent[0]
            if dest != addr:
                ctx.violation("reply sent to someone other than the sender", dict(arg=sexp.dumps(arg), dest=repr(dest)))
            parsed, rest = H.SOMEIPHeader.parse(data)
            if rest:
                ctx.violation("reply datagram has trailing bytes", dict(arg=sexp.dumps(arg)))
            reply = [conv.s_msg(parsed)]
        cases.append((1601, arg))
        impl.append([reply, bool(called)])
        descr.append(k)
        ctx.case(sexp.dumps(arg), kind="exhaustive" if k < len(combos) else "random",
                 sample=dict(arg=sexp.dumps(arg)[:300], reply=sexp.dumps(reply)[:200]) if k in (3, 700) else None)
    # ONE service object, several senders in turn - IPv4, IPv6, the same host with another port, link-local addresses that
    # differ only in the scope id or the flow label: every reply goes to the sender of ITS message, whatever came before
    import random
    r2 = random.Random(ctx.seed * 7919 + 16)      # a stream of its own: the cases above stay what they were
    senders = [("192.0.2.7", 40000), ("192.0.2.7", 40001), ("2001:db8::2", 30501, 0, 0), ("fe80::1", 40000, 0, 2), ("fe80::1", 40000, 0, 3),
               ("fe80::1", 40000, 7, 2), ("fe80::1", 40001, 0, 2)]
    for k in range(60 if quick else 2000):
        oc = r2.choice([0, 0, 0, 1, 2])
        outcome = [0, gen.payload(r2, maxlen=20)] if oc == 0 else [oc]
        svc, called = make_service(outcome)
        for step in range(r2.randint(2, 8)):
            sender = r2.choice(senders)
            mc = r2.random() < 0.1
            sok, vok, mok = r2.random() < 0.85, r2.random() < 0.85, r2.random() < 0.85
            msg = H.SOMEIPHeader(
                service_id=SVC if sok else SVC + 1, method_id=r2.choice(METHODS) if mok else 2,
                client_id=gen.id16(r2), session_id=gen.id16(r2), interface_version=VER if vok else VER + 1,
                message_type=r2.choice([H.SOMEIPMessageType.REQUEST, H.SOMEIPMessageType.REQUEST, H.SOMEIPMessageType.REQUEST_NO_RETURN, H.SOMEIPMessageType.NOTIFICATION]),
                return_code=H.SOMEIPReturnCode.E_OK, payload=gen.payload(r2, maxlen=16))
            before = len(svc.transport.sent)
            del called[:]
            with warnings.catch_warnings():
                warnings.simplefilter("ignore")
                svc.message_received(msg, sender, mc)
            sent = svc.transport.sent[before:]
            arg = [SVC, VER, METHODS, conv.s_msg(msg), mc, outcome]
            if len(sent) > 1:
                ctx.violation("more than one reply to one message", dict(arg=sexp.dumps(arg), replies=len(sent), step=step))
            reply = None
            if sent:
                data, dest = sent[0]
                if dest != sender:
                    ctx.violation("reply sent to someone other than the sender (one service object, several senders)",
                                  dict(arg=sexp.dumps(arg), sender=repr(sender), dest=repr(dest), step=step))
                parsed, rest = H.SOMEIPHeader.parse(data)
                reply = [conv.s_msg(parsed)]
            cases.append((1601, arg))
            impl.append([reply, bool(called)])
            descr.append(("seq", k, step))
            ctx.case(("seq", k, step, sexp.dumps(arg), repr(sender)), kind="sender-sequence")
    # a BURST of faulty messages from one sender to one service object: every one of them gets its error reply
    r4 = random.Random(ctx.seed * 7919 + 216)
    for k in range(10 if quick else 300):
        outcome = [r4.choice([0, 2]), gen.payload(r4, maxlen=8)] if r4.random() < 0.5 else [2]
        outcome = [0, outcome[1]] if outcome[0] == 0 else [2]
        svc, called = make_service(outcome)
        sender = r4.choice(senders)
        for step in range(r4.randint(12, 40)):
            fault = r4.choice(["service", "version", "method", "type", "code", "none"])
            msg = H.SOMEIPHeader(
                service_id=SVC + 1 if fault == "service" else SVC, method_id=2 if fault == "method" else r4.choice(METHODS),
                client_id=gen.id16(r4), session_id=gen.id16(r4), interface_version=VER + 1 if fault == "version" else VER,
                message_type=H.SOMEIPMessageType.NOTIFICATION if fault == "type" else H.SOMEIPMessageType.REQUEST,
                return_code=H.SOMEIPReturnCode.E_NOT_OK if fault == "code" else H.SOMEIPReturnCode.E_OK, payload=gen.payload(r4, maxlen=8))
            before = len(svc.transport.sent)
            del called[:]
            with warnings.catch_warnings():
                warnings.simplefilter("ignore")
                svc.message_received(msg, sender, False)
            sent = svc.transport.sent[before:]
            arg = [SVC, VER, METHODS, conv.s_msg(msg), False, outcome]
            if len(sent) > 1 or (sent and sent[0][1] != sender):
                ctx.violation("burst of faulty messages: more than one reply or a reply to someone else", dict(arg=sexp.dumps(arg), replies=len(sent), step=step))
            reply = [conv.s_msg(H.SOMEIPHeader.parse(sent[0][0])[0])] if sent else None
            cases.append((1601, arg))
            impl.append([reply, bool(called)])
            descr.append(("burst", k, step))
            ctx.case(("burst", k, step, sexp.dumps(arg)), kind="faulty-burst")
    # SEVERAL differently configured services in one process (other service id / major version / method set): the same
    # message reaches one after the other; each answers by ITS OWN configuration, whatever another one decided before
    r3 = random.Random(ctx.seed * 7919 + 116)
    for k in range(40 if quick else 1500):
        cfgs = [(SVC, VER, list(METHODS)), (SVC + 1, VER + 1, [METHODS[0], 0x0042]), (SVC, VER + 1, [0x0042])]
        r3.shuffle(cfgs)
        outcome = [0, gen.payload(r3, maxlen=12)]
        svcs = [(c, make_service(outcome, *c)) for c in cfgs[: r3.randint(2, 3)]]
        for step in range(r3.randint(2, 5)):
            sid, ver, meths = r3.choice(cfgs)
            msg = H.SOMEIPHeader(service_id=sid, method_id=r3.choice(meths + [0x0042, METHODS[0]]), client_id=gen.id16(r3), session_id=gen.id16(r3),
                                 interface_version=ver, message_type=r3.choice([H.SOMEIPMessageType.REQUEST, H.SOMEIPMessageType.REQUEST, H.SOMEIPMessageType.REQUEST_NO_RETURN]),
                                 return_code=H.SOMEIPReturnCode.E_OK, payload=gen.payload(r3, maxlen=8))
            for (c_sid, c_ver, c_meths), (svc, called) in (svcs if r3.random() < 0.5 else svcs[::-1]):
                before = len(svc.transport.sent)
                del called[:]
                raised = None
                with warnings.catch_warnings():
                    warnings.simplefilter("ignore")
                    try:
                        svc.message_received(msg, ("192.0.2.7", 40000), False)
                    except Exception as exc:  # noqa: BLE001
                        raised = type(exc).__name__
                sent = svc.transport.sent[before:]
                arg = [c_sid, c_ver, c_meths, conv.s_msg(msg), False, outcome]
                if raised is not None or len(sent) > 1:
                    ctx.violation("several services in one process: message_received raised or replied more than once", dict(arg=sexp.dumps(arg), raised=raised, replies=len(sent)))
                reply = [conv.s_msg(H.SOMEIPHeader.parse(sent[0][0])[0])] if sent else None
                cases.append((1601, arg))
                impl.append([reply, bool(called)])
                descr.append(("multi", k, step))
                ctx.case(("multi", k, step, c_sid, c_ver, sexp.dumps(arg)), kind="several-services")
    outs = compare(ctx, cases, impl, "SimpleService.message_received differs from Model/ServiceRecv.v", lambda i: sexp.dumps(cases[i][1])[:600])
    spec = ctx.model.batch([(1602, c[1]) for c in cases])
    for c, got, want in zip(cases, impl, spec):
        if sexp.dumps(got[0]) != want:
            ctx.violation("reply differs from the property's reply table", dict(arg=sexp.dumps(c[1])[:2000], implementation=sexp.dumps(got[0])[:800], table=want[:800]))
    incoq_crosscheck(ctx, cases, outs, limit=150 if quick else 500)
