"""Textual s-expressions shared with runner/driver.ml and Lib/Base.v.

Python form: int -> atom, bool -> 0/1, bytes/bytearray -> '#hex', list/tuple -> list,
None -> ().  Parsing yields int, bytes, list.
"""


def dumps(x) -> str:
    out = []
    _dump(x, out)
    return "".join(out)


def _dump(x, out):
    if x is None:
        out.append("()")
    elif x is True:
        out.append("1")
    elif x is False:
        out.append("0")
    elif isinstance(x, int):
        if x < 0:
            raise ValueError("negative atom")
        out.append(str(int(x)))
    elif isinstance(x, (bytes, bytearray)):
        out.append("#" + bytes(x).hex())
    elif isinstance(x, (list, tuple)):
        out.append("(")
        first = True
        for y in x:
            if not first:
                out.append(" ")
            first = False
            _dump(y, out)
        out.append(")")
    else:
        raise TypeError(f"cannot serialise {type(x).__name__}")


def loads(s: str):
    val, i = _parse(s, 0)
    return val


def _parse(s, i):
    n = len(s)
    while i < n and s[i] == " ":
        i += 1
    c = s[i]
    if c == "(":
        items = []
        i += 1
        while True:
            while s[i] == " ":
                i += 1
            if s[i] == ")":
                return items, i + 1
            v, i = _parse(s, i)
            items.append(v)
    if c == "#":
        j = i + 1
        while j < n and s[j] not in " )":
            j += 1
        return bytes.fromhex(s[i + 1 : j]), j
    j = i
    while j < n and s[j].isdigit():
        j += 1
    if j == i:
        raise ValueError(f"bad s-expression at {i}: {s[i:i+20]!r}")
    return int(s[i:j]), j


def to_coq(x) -> str:
    """The same value as a Gallina term of type sexp (for the in-Coq cross-check)."""
    if x is None:
        return "L []"
    if x is True:
        return "A 1"
    if x is False:
        return "A 0"
    if isinstance(x, int):
        return f"A {int(x)}"
    if isinstance(x, (bytes, bytearray)):
        return "B [" + "; ".join(str(b) for b in bytes(x)) + "]"
    return "L [" + "; ".join(to_coq(y) for y in x) + "]"
