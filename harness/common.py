"""Framework shared by all property checks: build under a lock, proof re-check with the
assumptions gate, the model runner, case accounting, violations, known findings, evidence."""
import collections
import fcntl
import hashlib
import json
import os
import random
import re
import shutil
import subprocess
import sys
import time

from . import sexp

VERIF = os.path.dirname(os.path.dirname(os.path.abspath(__file__)))
REPO = os.environ.get("PYSOMEIP_REPO", "/repo")
ALLOWED_AXIOMS = set()  # none: every property theorem must be closed under the global context

TRUSTED_BASE = [
    "Coq 8.16.1 kernel as run by coqc (vm_compute used in computational lemmas; native_compute not used)",
    "axioms: none (every Print Assumptions must say 'Closed under the global context')",
    "harness/gen_consts.py (translator of constants, enums and struct formats from the live modules)",
    "harness/gen_logic.py (ast translator of config.Service.matches_* and _SessionStorage.check_received/assign_outgoing to Gallina; Proofs/GenEquiv.v proves the translation equal to the hand-written model; the mapping of the SOMEIPSDEntry properties service_minor_version / eventgroup_id to the raw field is part of the translator)",
    "Coq extraction to OCaml with ExtrOcamlBasic only (bool, option, unit, list, prod, sumbool, sumor); N kept inductive; no Extract Constant of ours",
    "runner/driver.ml (s-expression parser/printer) and ocamlfind ocamlopt 4.13.1",
    "the correspondence harness (harness/*.py, virtual-time loop, canonicaliser) and CPython 3.12 with asyncio/struct/ipaddress/dataclasses",
    "the model is hand-written; its tie to /repo/src is differential testing on the inputs listed in coverage, not proof",
    "the ghost history (field glog of the model's world: queue_send / collector hand-over / send_sd / TimedStore refresh and expiry / registration of an already registered recording listener) is read by no model function and printed only for the comparison with the implementation's call history, which the harness obtains by wrapping those seven methods of the real objects (harness/sim.py); the whole-run theorems are statements about the model's runs",
    "Section variables / hypotheses: Proofs/Lift.v and its generated sibling Proofs/Lift5.v (tools/gen_lift5.py; the invariant and its twelve resp. sixteen primitive obligations, all discharged at each instantiation), Proofs/AListFacts.v and Proofs/TimedStoreProofs.v (a decidable key equality); no Axiom / Parameter / Admitted anywhere (grep gate in `make setup`)",
]


def sh(cmd, timeout=3000, cwd=VERIF, env=None):
    p = subprocess.run(
        cmd, shell=True, cwd=cwd, capture_output=True, text=True, timeout=timeout, env=env
    )
    return p.returncode, p.stdout + p.stderr


class Runner:
    """The extracted model: batch mode (one subprocess per batch)."""

    def __init__(self, path):
        self.path = path
        self.calls = 0

    def batch(self, cases, timeout=1200):
        """cases: iterable of (op, arg) -> list of result strings (canonical text)."""
        lines = [f"{op} {sexp.dumps(arg)}" for op, arg in cases]
        self.calls += len(lines)
        if not lines:
            return []
        p = subprocess.run(
            ["/bin/sh", "-c", f"ulimit -s unlimited 2>/dev/null; exec {self.path}"],
            input="\n".join(lines) + "\n",
            capture_output=True,
            text=True,
            timeout=timeout,
            env=dict(os.environ, OCAMLRUNPARAM="s=16M,o=400"),  # large minor heap: traces are long-lived, intermediates are not
        )
        out = p.stdout.split("\n")
        if out and out[-1] == "":
            out.pop()
        if len(out) != len(lines):
            raise RuntimeError(
                f"model runner produced {len(out)} results for {len(lines)} cases (rc={p.returncode}): {p.stderr[:500]}"
            )
        return out

    def call(self, op, arg):
        return self.batch([(op, arg)])[0]


class Build:
    """Regenerate Consts.v from /repo/src, rebuild (incrementally) under an exclusive lock."""

    def __init__(self):
        self.consts_status = "regenerated"
        self.logic_status = "n/a"
        self.make_ok = True
        self.make_log = ""
        self.runner_path = os.path.join(VERIF, "runner", "driver")

    def run(self):
        os.makedirs(os.path.join(VERIF, ".work"), exist_ok=True)
        with open(os.path.join(VERIF, ".build.lock"), "w") as lock:
            fcntl.flock(lock, fcntl.LOCK_EX)
            try:
                self._build()
            finally:
                fcntl.flock(lock, fcntl.LOCK_UN)
        return self

    def _build(self):
        env = dict(os.environ, PYTHONPATH=f"{REPO}/src", PYTHONHASHSEED="0", PYTHONDONTWRITEBYTECODE="1")
        consts = os.path.join(VERIF, "theories/Generated/Consts.v")
        rc, out = sh(f"/venv/bin/python -B harness/gen_consts.py {consts}", env=env)
        if rc != 0:
            self.consts_status = "fallback (generation aborted: %s)" % out.strip()[-300:]
            sh("git checkout -- theories/Generated/Consts.v")
        else:
            rc2, diff = sh("git diff --quiet -- theories/Generated/Consts.v")
            self.consts_changed = rc2 != 0
            if self.consts_changed:
                self.consts_status = "regenerated (differs from the committed constants)"
        # the translated decision logic (config.py matchers, _SessionStorage): regenerated from the source text as well
        logic = os.path.join(VERIF, "theories/Generated/LogicGen.v")
        rc, out = sh(f"/venv/bin/python -B harness/gen_logic.py {logic}", env=env)
        self.logic_aborted = None
        if rc != 0:
            self.logic_status = "fallback (translation aborted: %s) - the translated-source tie is OFF for this run" % out.strip()[-300:]
            self.logic_aborted = out.strip()[-300:]
            sh("git checkout -- theories/Generated/LogicGen.v")
        else:
            rc2, _ = sh("git diff --quiet -- theories/Generated/LogicGen.v")
            self.logic_status = "regenerated" + (" (differs from the committed translation)" if rc2 != 0 else "")
        if not os.path.exists(os.path.join(VERIF, "Makefile.coq")):
            sh("coq_makefile -f _CoqProject -o Makefile.coq")
        rc, out = sh("make -k coq JOBS=16 2>&1 | tail -60", timeout=3400)
        rc1, _ = sh("make -q -f Makefile.coq 2>/dev/null")
        self.make_log = out
        self.make_ok = "Error" not in out and "error" not in out.lower().replace("err_code", "")
        # a file that no longer compiles must not leave its previous .vo behind: every property whose theorems depend on
        # it then fails to re-check (missing / inconsistent library) instead of silently using the stale compilation
        self.failed_vo = sorted(set(re.findall(r"\[Makefile\.coq:\d+: (theories/[\w/]+\.vo)\] Error", out)))
        for vo in self.failed_vo:
            for ext in ("", "s", "k"):
                try:
                    os.remove(os.path.join(VERIF, vo + ext))
                except OSError:
                    pass
        rc, out2 = sh("make runner 2>&1 | tail -20", timeout=600)
        if rc != 0 or not os.path.exists(self.runner_path):
            self.make_ok = False
            self.make_log += "\n" + out2
            self._fallback_runner()

    def _fallback_runner(self):
        """The model no longer builds with the regenerated constants: build a runner from the
        committed constants in a scratch directory so the search for a failing input can run."""
        d = os.path.join(VERIF, ".work", "fallback")
        shutil.rmtree(d, ignore_errors=True)
        os.makedirs(d)
        sh(f"cp -r theories _CoqProject runner Makefile harness {d}/ && find {d} -name '*.vo*' -delete -o -name '*.glob' -delete")
        sh(f"git show HEAD:theories/Generated/Consts.v > {d}/theories/Generated/Consts.v")
        sh("coq_makefile -f _CoqProject -o Makefile.coq && make -f Makefile.coq -j16 theories/Extract.vo && mv model.ml model.mli runner/ && cd runner && ocamlfind ocamlopt -O2 -w -a model.mli model.ml driver.ml -o driver", cwd=d, timeout=3000)
        self.runner_path = os.path.join(d, "runner", "driver")
        self.consts_status += "; runner built from the committed constants (model does not build with the regenerated ones)"


def recheck_proofs(pid, workdir, tier="quick"):
    """coqc Properties/<pid>.v afresh; returns dict(obligations, discharged, cmd, axioms, log, ok)."""
    src = os.path.join(VERIF, "theories", "Properties", f"{pid}.v")
    with open(src) as f:
        text = f.read()
    theorems = re.findall(r"^\s*(?:Theorem|Lemma|Corollary)\s+(\w+)", text, re.M)
    printed = re.findall(r"^\s*Print Assumptions\s+(\w+)\s*\.", text, re.M)
    cmd = f"timeout 600 coqc -Q theories PS -w -notation-overridden -o {workdir}/{pid}.vo theories/Properties/{pid}.v"
    rc, out = sh(cmd, timeout=700)
    res = dict(obligations=len(theorems), discharged=0, cmd=cmd, axioms=[], log=out[-3000:], ok=False, theorems=theorems)
    if rc != 0:
        m = re.search(r'File "[^"]*", line (\d+)', out)
        res["failed_at"] = int(m.group(1)) if m else None
        if m:
            line = int(m.group(1))
            before = text.split("\n")[:line]
            names = re.findall(r"^\s*(?:Theorem|Lemma|Corollary)\s+(\w+)", "\n".join(before), re.M)
            res["failed_theorem"] = names[-1] if names else None
        return res
    blocks = re.split(r"(?=Closed under the global context|Axioms:)", out)
    blocks = [b for b in blocks if b.startswith("Closed") or b.startswith("Axioms:")]
    closed = 0
    for b in blocks:
        if b.startswith("Closed"):
            closed += 1
        else:
            names = re.findall(r"^(\S+)\s*:", b[len("Axioms:"):], re.M)
            res["axioms"].extend(names)
            if all(n in ALLOWED_AXIOMS for n in names):
                closed += 1
    missing = [t for t in theorems if t not in printed]
    res["unprinted"] = missing
    res["discharged"] = min(closed, len(theorems)) if not missing else min(closed, len(theorems) - len(missing))
    res["ok"] = (closed == len(printed)) and not missing and len(theorems) > 0 and all(
        a in ALLOWED_AXIOMS for a in res["axioms"]
    )
    if tier == "thorough" and res["ok"]:
        # independent re-check of the compiled property file and everything it depends on, with the axiom summary
        ccmd = f"timeout 1500 coqchk -silent -o -Q theories PS PS.Properties.{pid}"
        rc2, out2 = sh(ccmd, timeout=1600)
        m = re.search(r"\* Axioms:(.*?)\n\s*\n", out2, re.S)
        ax = m.group(1).strip() if m else "unparsed"
        res["coqchk_cmd"] = ccmd
        res["coqchk_axioms"] = ax
        res["cmd"] += " ; " + ccmd
        if rc2 != 0 or ax != "<none>":
            res["ok"] = False
            res["failed_theorem"] = f"coqchk: rc={rc2}, axioms={ax[:200]}"
            res["log"] = out2[-2000:]
    return res


def load_corpus(pid):
    """Minimised cases that once failed (witnesses of findings): they run first on every run."""
    import glob
    out = []
    for f in sorted(glob.glob(os.path.join(VERIF, "corpus", f"{pid}-*.json"))):
        with open(f) as fh:
            out.append(json.load(fh))
    return out


def load_known_findings():
    p = os.path.join(VERIF, "known_findings.json")
    if not os.path.exists(p):
        return []
    with open(p) as f:
        return json.load(f)["findings"]


class Ctx:
    def __init__(self, pid, tier, seed):
        self.pid = pid
        self.tier = tier
        self.seed = seed
        self.rng = random.Random(seed * 1000003 + int(pid[1:]))
        self.t0 = time.time()
        self.evaluations = 0
        self.distinct = set()
        self.dist = collections.Counter()
        self.samples = []
        self.violations = []  # (what, replay_dict, no_input)
        self.mismatches = []  # model/impl differences (replay dicts)
        self.known_hits = collections.Counter()
        self.notes = {}
        self.assumptions = []
        self.rule = ""
        self.exhaustive = False
        self.workdir = os.path.join(VERIF, ".work", f"{pid}-{os.getpid()}")
        os.makedirs(self.workdir, exist_ok=True)
        self.known = [k for k in load_known_findings() if k["property"] == pid]
        self.model = None
        self.build = None
        self.proof = None

    # ---- accounting ----
    def case(self, key, nontrivial=True, kind=None, sample=None):
        self.evaluations += 1
        if kind is not None:
            self.dist[kind] += 1
        if nontrivial:
            h = hashlib.blake2b(repr(key).encode(), digest_size=8).digest()
            self.distinct.add(h)
        if sample is not None and len(self.samples) < 6:
            self.samples.append(sample)

    def violation(self, what, replay, no_input=False):
        self.violations.append((what, replay, no_input))

    def mismatch(self, what, replay):
        self.mismatches.append((what, replay))

    def known_hit(self, fid):
        self.known_hits[fid] += 1

    # ---- end of run ----
    def finish(self):
        wall = time.time() - self.t0
        lines = []
        # known findings: print one line per listed open finding that was confirmed on this run
        for k in self.known:
            if k.get("status") == "open":
                if self.known_hits.get(k["id"], 0) > 0:
                    lines.append(f"KNOWN-FINDING: property={self.pid} {k['id']} {k['what']}")
                else:
                    # a listed finding that no longer reproduces is not an alarm; say so in the evidence
                    self.notes.setdefault("known_findings_not_reproduced", []).append(k["id"])
        # correspondence differences with no concrete property failure
        if self.mismatches and not self.violations:
            what, replay = self.mismatches[0]
            replay = dict(replay)
            replay["broken"] = f"correspondence model/implementation: {what}"
            replay["all_differences"] = len(self.mismatches)
            self.violations.append((what, replay, True))
        if self.proof is not None and not self.proof["ok"] and not any(not v[2] for v in self.violations):
            thm = self.proof.get("failed_theorem") or ("assumptions gate: %s" % self.proof.get("axioms"))
            replay = dict(property=self.pid, broken=f"proof obligation Properties/{self.pid}.v: {thm}", log=self.proof["log"][-1500:],
                          consts=self.build.consts_status if self.build else None)
            self.violations.append((f"theorem {thm} no longer checks", replay, True))
        nviol = 0
        os.makedirs(os.path.join(VERIF, "replays"), exist_ok=True)
        reported = set()
        for what, replay, no_input in self.violations:
            body = json.dumps(replay, sort_keys=True, default=_json_default)
            h = hashlib.blake2b(body.encode(), digest_size=6).hexdigest()
            if h in reported:
                continue
            reported.add(h)
            if nviol >= 5:
                nviol += 1
                continue
            path = os.path.join(VERIF, "replays", f"{self.pid}-{h}.json")
            with open(path, "w") as f:
                json.dump(dict(replay, property=self.pid, what=what, tier=self.tier, seed=self.seed), f, indent=1, default=_json_default)
            lines.append(f"VIOLATION property={self.pid} replay={path}" + (" no-failing-input-found" if no_input else ""))
            nviol += 1
        self._write_evidence(wall, nviol)
        for l in lines:
            print(l)
        print(f"[{self.pid}] tier={self.tier} seed={self.seed} evaluations={self.evaluations} distinct_nontrivial={len(self.distinct)} "
              f"proof={'ok' if self.proof and self.proof['ok'] else 'BROKEN' if self.proof else 'n/a'} violations={nviol} wall={wall:.1f}s")
        shutil.rmtree(self.workdir, ignore_errors=True)
        return 1 if nviol else 0

    def _write_evidence(self, wall, nviol):
        pr = self.proof or dict(obligations=0, discharged=0, cmd="", axioms=[])
        cov = dict(
            obligations=pr["obligations"],
            discharged=pr["discharged"],
            checker_cmd=pr["cmd"] + " (after `make -C /verif coq`, a full .vo build of the whole development)",
            trusted_base=TRUSTED_BASE + ["axioms reported by Print Assumptions on this run: %s" % (pr["axioms"] or "none")],
            theorems=pr.get("theorems", []),
            evaluations=self.evaluations,
            distinct_nontrivial=len(self.distinct),
            rule=self.rule,
            samples=self.samples or ["(no samples recorded)"],
            exhaustive=self.exhaustive,
            input_distribution=dict(self.dist),
            model_impl_differences=len(self.mismatches),
            known_findings_confirmed=dict(self.known_hits),
            generated_consts=self.build.consts_status if self.build else "n/a",
            generated_logic=self.build.logic_status if self.build else "n/a",
            model_runner_calls=self.model.calls if self.model else 0,
            coqchk_axioms=pr.get("coqchk_axioms", "not run (thorough tier only)"),
        )
        cov.update(self.notes)
        ev = dict(
            property_id=self.pid,
            tier=self.tier,
            seed=self.seed,
            level="proof",
            coverage=cov,
            assumptions=self.assumptions,
            wall_s=round(wall, 2),
            violations=nviol,
        )
        evdir = os.path.join(VERIF, ".work", "evidence-dev") if getattr(self, "dev_run", False) else os.path.join(VERIF, "evidence")
        os.makedirs(evdir, exist_ok=True)
        tmp = os.path.join(evdir, f".{self.pid}.json.{os.getpid()}")
        with open(tmp, "w") as f:
            json.dump(ev, f, indent=1, default=_json_default)
        os.replace(tmp, os.path.join(evdir, f"{self.pid}.json"))


def _json_default(o):
    if isinstance(o, (bytes, bytearray)):
        return "#" + bytes(o).hex()
    if isinstance(o, (set, frozenset)):
        return sorted(o)
    return repr(o)


def compare(ctx, cases, impl_results, what, describe):
    """Run the model on cases [(op,arg)], compare textually with the implementation's results
    (python sexp structures).  Returns the list of model result strings."""
    outs = ctx.model.batch(cases)
    for i, (c, mine, theirs) in enumerate(zip(cases, outs, impl_results)):
        t = sexp.dumps(theirs)
        if mine != t:
            ctx.mismatch(what, dict(case=describe(i), op=c[0], arg=sexp.dumps(c[1])[:4000], model=mine[:4000], implementation=t[:4000]))
    return outs


def incoq_crosscheck(ctx, cases, expected, limit=200):
    """Evaluate a sample of the same cases inside Coq with vm_compute and compare with the
    extracted runner's output: validates extraction + driver parsing/printing."""
    idx = list(range(len(cases)))
    ctx.rng.shuffle(idx)
    idx = [i for i in idx if len(sexp.dumps(cases[i][1])) < 6000][:limit]
    if not idx:
        return
    lines = ["From PS Require Import Lib.Base Model.Dispatch.", "From Coq Require Import List. Import ListNotations.", "Open Scope N_scope."]
    for n, i in enumerate(idx):
        op, arg = cases[i]
        lines.append(f"Definition c{n} : sexp := dispatch {op} ({sexp.to_coq(arg)}).")
        lines.append(f"Definition e{n} : sexp := {sexp.to_coq(sexp.loads(expected[i]))}.")
    lines.append("Fixpoint seqb (a b : sexp) {struct a} : bool := match a, b with"
                 " | A x, A y => N.eqb x y | B x, B y => list_eqb N.eqb x y | B [], L [] => true | L [], B [] => true"
                 " | L x, L y => (fix go (u v : list sexp) {struct u} : bool := match u, v with [] , [] => true | p :: u', q :: v' => seqb p q && go u' v' | _, _ => false end) x y"
                 " | _, _ => false end.")
    pairs = "; ".join(f"(c{n}, e{n})" for n in range(len(idx)))
    lines.append(f"Definition failures : list nat := map fst (filter (fun p => negb (seqb (fst (snd p)) (snd (snd p)))) (combine (seq 0 {len(idx)}) [{pairs}])).")
    lines.append("Eval vm_compute in failures.")
    path = os.path.join(ctx.workdir, "cases.v")
    with open(path, "w") as f:
        f.write("\n".join(lines) + "\n")
    rc, out = sh(f"timeout 600 coqc -Q theories PS -w -notation-overridden -o {ctx.workdir}/cases.vo {path}", timeout=700)
    ctx.notes["incoq_crosscheck_cases"] = ctx.notes.get("incoq_crosscheck_cases", 0) + len(idx)
    if rc != 0:
        ctx.mismatch("in-Coq cross-check did not compile", dict(log=out[-2000:]))
        return
    m = re.search(r"=\s*\[(.*?)\]\s*:\s*list nat", out, re.S)
    if not m:
        ctx.mismatch("in-Coq cross-check: unparsable output", dict(log=out[-2000:]))
        return
    body = m.group(1).strip()
    if body:
        bad = [int(x) for x in re.findall(r"\d+", body)]
        k = idx[bad[0]]
        ctx.mismatch("extracted runner and in-Coq vm_compute disagree", dict(op=cases[k][0], arg=sexp.dumps(cases[k][1])[:3000], runner=expected[k][:3000]))
