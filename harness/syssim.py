"""Two real ServiceDiscoveryProtocol stacks, each on its own virtual-time loop, exchanging their datagrams over a
simulated network with loss / duplication / reordering, graceful stop/start, crash and restart.  Mirrors
Model/System.v step by step (same instants, same order of arrivals, same oracle consumption)."""
from . import sexp, sim
from .vloop import TICK, VLoop


class Node:
    def __init__(self, index, ncfg, rev):
        self.index = index
        self.addr, self.cfg, self.insts, self.draws, self.init = ncfg
        self.rev = rev
        self.sim = None
        self.trace = []          # cumulative, across incarnations
        self.sends = []

    def sc(self):
        return dict(cfg=self.cfg, insts=self.insts, draws=self.draws, events=[], end=0, rev=self.rev, fuel=0)

    def crash(self):
        if self.sim is not None:
            self.trace.extend(self.sim.trace)
            s = self.sim
            self.sim = None
            s.on_send = None
            s.close()

    def restart(self, t):
        if self.sim is not None:
            return []
        loop = VLoop(rev_ties=self.rev)
        loop.vnow = t * TICK
        self.sim = sim.StackSim(self.sc(), loop=loop)
        self.sim.on_send = lambda dest, data: self.sends.append((dest, data))
        return [(1, c) for c in self.init]

    def step(self, t, ctls, arrived, fuel):
        """-> (sends, ok)"""
        handles = []
        for c in ctls:
            if c[0] == 1:
                self.crash()
                handles = []
            elif c[0] == 2:
                if self.sim is None:
                    handles = self.restart(t)
            else:
                handles.append((1, c[1]))
        if self.sim is None:
            return [], True
        for frm, mc, data in arrived:
            handles.append((0, frm, mc, data))
        self.sends = []
        s = self.sim
        if s.loop.vnow < t * TICK and not handles:
            pass
        for h in handles:
            s.loop.inject(t, (lambda e: (lambda: s.do(e)))(h))
        s.sc["fuel"] = fuel
        s.sc["end"] = t
        ok = s.run()
        return list(self.sends), ok

    def full_trace(self):
        return self.trace + (self.sim.trace if self.sim is not None else [])

    def next_timer(self):
        if self.sim is None:
            return None
        best = None
        for h in self.sim.loop._scheduled:
            if not h._cancelled:
                w = int(round(h._when / TICK))
                best = w if best is None else min(best, w)
        return best


def run_impl(sc, sendlog=None):
    na, nb, events, decisions, fault_end, latency, t_end, rev, fuel = sc
    nodes = [Node(0, na, rev), Node(1, nb, rev)]
    net = []            # (arrive, to, from_addr, mc, data) in sending order
    decs = list(decisions)
    evs = list(events)
    now = 0
    ok_all = True
    steps = 0
    try:
        while steps < fuel:
            steps += 1
            cands = [x for x in (nodes[0].next_timer(), nodes[1].next_timer()) if x is not None]
            if evs:
                cands.append(evs[0][0])
            cands.extend(d[0] for d in net)
            if not cands:
                break
            t = max(min(cands), now)
            if t > t_end:
                break
            now_evs = [e for e in evs if e[0] <= t]
            evs = [e for e in evs if e[0] > t]
            due = sorted([d for d in net if d[0] <= t], key=lambda d: d[0])  # stable
            net = [d for d in net if d[0] > t]
            out = []
            for n in nodes:
                ctls = [e[2] for e in now_evs if bool(e[1]) == bool(n.index)]
                arrived = [(d[2], d[3], d[4]) for d in due if d[1] == n.index]
                sends, ok = n.step(t, ctls, arrived, fuel)
                ok_all = ok_all and ok
                out.append(sends)
            for n, sends in zip(nodes, out):
                other = nodes[1 - n.index]
                for dest, data in sends:
                    if sendlog is not None:
                        sendlog.append((t, n.index, dest is None, data))
                    if t < fault_end and decs:
                        lats = decs.pop(0)
                    else:
                        lats = [latency]
                    if dest is None:
                        target = (other.index, True)
                    elif dest[0] == other.addr:
                        target = (other.index, False)
                    else:
                        target = None
                    if target is not None:
                        for l in lats:
                            net.append((t + max(1, l), target[0], n.addr, target[1], data))
            now = t
        completed = steps < fuel and ok_all
        res = (sim.canon_trace(nodes[0].full_trace()), sim.canon_trace(nodes[1].full_trace()), completed,
               [nodes[0].sim.final()[:-1]] if nodes[0].sim else [], [nodes[1].sim.final()[:-1]] if nodes[1].sim else [])
        return res
    finally:
        for n in nodes:
            if n.sim is not None:
                n.sim.on_send = None
                n.sim.close()


def node_sexp(n):
    addr, cfg, insts, draws, init = n
    c = list(cfg)
    c[10] = None if c[10] is None else [c[10]]
    return [addr, c, [[i, s, list(r)] for i, s, r in insts], list(draws), list(init)]


def ctl_sexp(c):
    return [0, c[1]] if c[0] == 0 else [c[0]]


def scenario_sexp(sc):
    na, nb, events, decisions, fault_end, latency, t_end, rev, fuel = sc
    return [node_sexp(na), node_sexp(nb), [[t, bool(b), ctl_sexp(c)] for t, b, c in events], [list(d) for d in decisions],
            fault_end, latency, t_end, bool(rev), fuel]


def run_model(ctx, scs):
    outs = ctx.model.batch([(3301, scenario_sexp(sc)) for sc in scs])
    res = []
    for o in outs:
        v = sexp.loads(o)
        if len(v) != 5:
            raise RuntimeError("model rejected the system scenario: " + o[:200])
        # the loops' private clocks are not compared (an idle loop's clock lags behind the global instant)
        res.append((sim.canon_trace(v[0]), sim.canon_trace(v[1]), bool(v[2]), [x[:-1] for x in v[3]], [x[:-1] for x in v[4]]))
    return res
