#!/usr/bin/env python3
"""Writes MANIFEST.json from the table below (kept in one place so it stays valid)."""
import json
import os

VERIF = os.path.dirname(os.path.dirname(os.path.abspath(__file__)))

COMMON_NOTE = ("Trusted: Coq 8.16.1 kernel (no axioms; Print Assumptions gate on every run), gen_consts.py translator, extraction with "
               "ExtrOcamlBasic + runner/driver.ml, the correspondence harness and CPython. The theorems are about the hand-written Gallina "
               "model; that the model is the code is established by differential testing on every run (coverage in the evidence), not proved.")

CHECKS = {
    "C19": dict(
        text="Machine-checked Coq theorems over the Gallina model of config.py for all field values (exactness against a one-line "
             "wildcard specification, symmetry, monotonicity under widening, find/offer duality, offer round-trip, for_service "
             "characterisation), plus an exhaustive + random correspondence of every config.py function against the extracted model and "
             "against the extracted spec functions.",
        design="6 (C19)",
        technique="Coq proof by case analysis on N.eqb over the model + differential correspondence (exhaustive over the wildcard alphabet)",
        note=COMMON_NOTE,
    ),
}

CHECKS["C01"] = dict(
    text="Coq theorems over the Gallina model of SOMEIPHeader.build/parse and the datagram loop, for all field values, payloads, suffixes and "
         "message counts: layout equation against a decoder-independent byte layout (computed on the struct format GENERATED from the live class, "
         "so a changed format string breaks the proof), round trip with arbitrary suffix, soundness of parse (only encodings decode), "
         "build fails exactly on out-of-width fields, datagram loop delivers all / exactly the prefix before an undecodable message, termination. "
         "Correspondence: build/parse/datagram_received vs the extracted model incl. 64 KiB payloads; implementation bytes judged by the extracted spec_layout.",
    design="6 (C01)", technique="Coq proof (induction over lists, lia over big-endian arithmetic) + generated struct formats + differential correspondence", note=COMMON_NOTE)
CHECKS["C18"] = dict(
    text="Coq theorems: SOMEIPHeader.read over an abstract exact reader equals parse up to the incomplete-read error kind, for every stream; "
         "message sequences agree with the same terminal condition; a stream cut inside a message yields the incomplete-read error. "
         "Chunk independence itself is asyncio.StreamReader's (trusted) and exercised by the harness over single/pair/all cut sets, 1-byte chunks, random cuts.",
    design="6 (C18)", technique="Coq proof (read = parse modulo error mapping, induction on fuel) + differential correspondence over chunkings", note=COMMON_NOTE)
CHECKS["C07"] = dict(
    text="Coq theorems over the model of _SessionStorage.check_received for every history: the code equals spec_detect_code; it equals the literal "
         "property spec_detect on histories free of the F12 pattern, and the full statement is refuted by a vm_compute witness (known finding F12, "
         "session id 0). Correspondence exhaustive over the boundary alphabet (length <= 2 quick / <= 3 thorough) + random; fan-out counted on a real ServiceDiscoveryProtocol.",
    design="6 (C07)", technique="Coq proof by induction over the history with an alist invariant + refutation witness + exhaustive differential correspondence",
    note=COMMON_NOTE + " Known finding F12 is excused only by the extracted classifier f12_at (the same term that is the theorem's hypothesis).")
CHECKS["C16"] = dict(
    text="Coq theorem: the model of SimpleService.message_received equals the property's reply table (literal type/code numbers) for every message, "
         "channel and handler outcome; corollaries: correlation of ids, fire-and-forget never gets RESPONSE, multicast never answered, handler called iff all checks pass. "
         "Correspondence exhaustive over the decision domain (2x2x2x10x11x3x2) + random ids/payloads through the real SimpleService with a recording transport.",
    design="6 (C16)", technique="Coq proof by case analysis of the decision chain + exhaustive differential correspondence", note=COMMON_NOTE)

CHECKS["C02"] = dict(
    text="Coq theorems over the model of _find / assign_option_indexes / resolve_options / entry, option and SD-header build+parse, for ALL messages in the "
         "property's domain (no bound on entries, options, sharing pattern): the search is sound, in range and terminates; assignment is total; "
         "resolve(assign m) = m with each entry's exact option runs (invariant: the shared array only grows by appending); encode-then-decode gives back the "
         "assigned header (option/entry/header round trips incl. configuration strings, flag bits by a finite sweep); counts > 15 / indexes > 255 never emit bytes. "
         "Not proved: the exact iff for encoding errors and the independent layout decoder's agreement (it runs extracted on the implementation's bytes instead). "
         "Correspondence: indexes + shared array compared exactly, 0-300 distinct options, send_sd -> receive path.",
    design="6 (C02)", technique="Coq proof (induction over entries/options, append-only invariant, bit-field lemmas) + differential correspondence + extracted independent decoder", note=COMMON_NOTE)
CHECKS["C03"] = dict(
    text="Coq theorems for every decoder and every input: termination (fuel never exhausted), value + suffix of the input, errors only ParseError / IncompleteReadError / "
         "Unicode-only-with-a-byte>=0x80. The 'no other exception type escapes' half and the live receive-path half (no listener call, no transmission, no state change for "
         "non-SD datagrams; unicast-flag-clear entries ignored; service endpoint never raises) are checked on the real ServiceDiscoveryProtocol / SimpleService with state snapshots "
         "over the malformed stream (differential / exploration strength for that half).",
    design="6 (C03)", technique="Coq proof of totality and error kinds for all decoders + malformed-stream differential correspondence + live twin-state checks", note=COMMON_NOTE)
CHECKS["C20"] = dict(
    text="Coq theorems: every accepted SOME/IP message and every accepted SD entry re-encodes without error to exactly the consumed bytes and decodes again to the same value; "
         "options and SD headers inside wf_opt / wf_sd re-decode to themselves (the statement for every accepted option / SD input is named partial in Properties/C20.v). "
         "Correspondence: decode-encode-decode cycle on the implementation for accepted inputs reached by mutation and by an independent non-canonical SD encoder.",
    design="6 (C20)", technique="Coq proof (parse soundness via pack/unpack inverses, bit-field lemmas) + differential correspondence with a non-canonical encoder", note=COMMON_NOTE)

NOT_YET = {}


def main():
    props = [json.loads(l) for l in open(os.path.join(VERIF, "properties.jsonl"))]
    checks = []
    na = []
    for p in props:
        pid = p["id"]
        if pid in CHECKS:
            c = CHECKS[pid]
            checks.append(dict(
                property_id=pid,
                quick_cmd=f"./check {pid} --tier quick",
                thorough_cmd=f"./check {pid} --tier thorough",
                evidence_file=f"/verif/evidence/{pid}.json",
                replay_cmd_template="./check --replay {path}",
                engine="coq-model",
                level_claimed=dict(category="proof", text=c["text"], design_ref=c["design"]),
                level_note=c["note"],
                technique=c["technique"],
            ))
        else:
            na.append(dict(property_id=pid, reason=NOT_YET.get(pid, "not claimed yet: the model/theorems/correspondence for this property are still being built (work in progress, see DESIGN.md section 11); it is applicable")))
    m = dict(
        version=1,
        setup_cmd="make -C /verif setup",
        hooks=dict(guard="PYSOMEIP_VERIF", enable="no hooks are needed: every observation point is a public boundary owned by the harness (transport, listeners, event loop, random.uniform, getaddrinfo)",
                   baseline_off_cmd="cd /repo && /venv/bin/python -m pytest -ra -q -p no:cacheprovider --timeout=900 --continue-on-collection-errors",
                   source_commits=[], add_only=True),
        engines=[dict(name="coq-model", path="/verif/theories", serves_properties=sorted(CHECKS),
                      kind_free_text="Coq 8.16.1 development (model + theorems), extracted OCaml runner, Python correspondence harness on a virtual-time asyncio loop")],
        checks=checks,
        notes="See DESIGN.md. ./check <id> regenerates Generated/Consts.v from /repo/src, rebuilds the Coq development, re-checks Properties/<id>.v with the assumptions gate, then runs the correspondence and the extracted property checkers on implementation traces.",
        not_applicable=na,
    )
    with open(os.path.join(VERIF, "MANIFEST.json"), "w") as f:
        json.dump(m, f, indent=1)
    print("MANIFEST.json written:", len(checks), "checks,", len(na), "not claimed")


if __name__ == "__main__":
    main()
