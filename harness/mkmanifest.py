#!/usr/bin/env python3
"""Writes MANIFEST.json from the table below (kept in one place so it stays valid)."""
import json
import os

VERIF = os.path.dirname(os.path.dirname(os.path.abspath(__file__)))

COMMON_NOTE = ("Trusted: Coq 8.16.1 kernel (no axioms; Print Assumptions gate on every run), gen_consts.py (constants) and gen_logic.py (source translator, fail-closed; its output is proved equal to the model in Proofs/GenEquiv.v, GenSkel.v, GenService.v on every run), extraction with "
               "ExtrOcamlBasic + runner/driver.ml, the correspondence harness and CPython. The theorems are about the hand-written Gallina "
               "model; that the model is the code is established by differential testing on every run (coverage in the evidence), not proved.")

CHECKS = {
    "C19": dict(
        text="Machine-checked Coq theorems over the Gallina model of config.py for all field values (exactness against a one-line "
             "wildcard specification, symmetry, monotonicity under widening, find/offer duality, offer round-trip, for_service "
             "characterisation), plus an exhaustive + random correspondence of every config.py function against the extracted model and "
             "against the extracted spec functions.",
        design="6 (C19)",
        technique="Coq proof by case analysis on N.eqb over the model + differential correspondence (exhaustive over the wildcard alphabet)",
        note=COMMON_NOTE,
    ),
}

CHECKS["C01"] = dict(
    text="Coq theorems over the Gallina model of SOMEIPHeader.build/parse and the datagram loop, for all field values, payloads, suffixes and "
         "message counts: layout equation against a decoder-independent byte layout (computed on the struct format GENERATED from the live class, "
         "so a changed format string breaks the proof), round trip with arbitrary suffix, soundness of parse (only encodings decode), "
         "build fails exactly on out-of-width fields, datagram loop delivers all / exactly the prefix before an undecodable message, termination. "
         "Correspondence: build/parse/datagram_received vs the extracted model incl. 64 KiB payloads; implementation bytes judged by the extracted spec_layout.",
    design="6 (C01)", technique="Coq proof (induction over lists, lia over big-endian arithmetic) + generated struct formats + differential correspondence", note=COMMON_NOTE)
CHECKS["C18"] = dict(
    text="Coq theorems: SOMEIPHeader.read over an abstract exact reader equals parse up to the incomplete-read error kind, for every stream; "
         "message sequences agree with the same terminal condition; a stream cut inside a message yields the incomplete-read error. "
         "Chunk independence itself is asyncio.StreamReader's (trusted) and exercised by the harness over single/pair/all cut sets, 1-byte chunks, random cuts.",
    design="6 (C18)", technique="Coq proof (read = parse modulo error mapping, induction on fuel) + differential correspondence over chunkings", note=COMMON_NOTE)
CHECKS["C07"] = dict(
    text="Coq theorems over the model of _SessionStorage.check_received for every history: the code equals spec_detect_code; it equals the literal "
         "property spec_detect on histories free of the F12 pattern, and the full statement is refuted by a vm_compute witness (known finding F12, "
         "session id 0). Correspondence exhaustive over the boundary alphabet (length <= 2 quick / <= 3 thorough) + random; fan-out counted on a real ServiceDiscoveryProtocol.",
    design="6 (C07)", technique="Coq proof by induction over the history with an alist invariant + refutation witness + exhaustive differential correspondence",
    note=COMMON_NOTE + " Known finding F12 is excused only by the extracted classifier f12_at (the same term that is the theorem's hypothesis).")
CHECKS["C16"] = dict(
    text="Coq theorem: the model of SimpleService.message_received equals the property's reply table (literal type/code numbers) for every message, "
         "channel and handler outcome; corollaries: correlation of ids, fire-and-forget never gets RESPONSE, multicast never answered, handler called iff all checks pass. "
         "Correspondence exhaustive over the decision domain (2x2x2x10x11x3x2) + random ids/payloads through the real SimpleService with a recording transport.",
    design="6 (C16)", technique="Coq proof by case analysis of the decision chain + exhaustive differential correspondence", note=COMMON_NOTE)

CHECKS["C02"] = dict(
    text="Coq theorems over the model of _find / assign_option_indexes / resolve_options / entry, option and SD-header build+parse, for ALL messages in the "
         "property's domain (no bound on entries, options, sharing pattern): the search is sound, in range and terminates; assignment is total; "
         "resolve(assign m) = m with each entry's exact option runs (invariant: the shared array only grows by appending); encode-then-decode gives back the "
         "assigned header (option/entry/header round trips incl. configuration strings, flag bits by a finite sweep); counts > 15 / indexes > 255 never emit bytes. "
         "Not proved: the exact iff for encoding errors and the independent layout decoder's agreement (it runs extracted on the implementation's bytes instead). "
         "Correspondence: indexes + shared array compared exactly, 0-300 distinct options, send_sd -> receive path.",
    design="6 (C02)", technique="Coq proof (induction over entries/options, append-only invariant, bit-field lemmas) + differential correspondence + extracted independent decoder", note=COMMON_NOTE)
CHECKS["C03"] = dict(
    text="Coq theorems for every decoder and every input: termination (fuel never exhausted), value + suffix of the input, errors only ParseError / IncompleteReadError / "
         "Unicode-only-with-a-byte>=0x80. The 'no other exception type escapes' half and the live receive-path half (no listener call, no transmission, no state change for "
         "non-SD datagrams; unicast-flag-clear entries ignored; service endpoint never raises) are checked on the real ServiceDiscoveryProtocol / SimpleService with state snapshots "
         "over the malformed stream (differential / exploration strength for that half).",
    design="6 (C03)", technique="Coq proof of totality and error kinds for all decoders + malformed-stream differential correspondence + live twin-state checks", note=COMMON_NOTE)
CHECKS["C20"] = dict(
    text="Coq theorems: every accepted SOME/IP message and every accepted SD entry re-encodes without error to exactly the consumed bytes and decodes again to the same value; "
         "every accepted SD option and every accepted whole SD message re-encodes without error and decodes again to the same value with nothing left over (the image of each decoder is characterised: wf_opt / wf_sd, a configuration option = item encodings + zero byte + ignored tail). "
         "Correspondence: decode-encode-decode cycle on the implementation for accepted inputs reached by mutation and by an independent non-canonical SD encoder.",
    design="6 (C20)", technique="Coq proof (parse soundness via pack/unpack inverses, bit-field lemmas) + differential correspondence with a non-canonical encoder", note=COMMON_NOTE)

STACK_NOTE = COMMON_NOTE + " Loop-level: the asyncio event loop, tasks and timers are MODELLED (Model/Stack.v, hop rules calibrated against CPython 3.12 under the virtual-time loop), not verified; the model never runs late (virtual time). The end-to-end refinement model-run => abstract specification is NOT proved for this property; it is checked on every run by comparing complete traces (bytes and ticks) of the model and the real stack and by judging the implementation traces with the extracted Gallina checker."
CHECKS["C05"] = dict(
    text="Coq theorem over WHOLE RUNS of the full stack model (every scenario and schedule, invariant kept by every TimedStore operation on the found services, every watch / unwatch / watch-all / unwatch-all call with its replay loop, every callback / loop step / run): for every recording listener never registered while already registered (ghost event; outside: known finding F13) the latest notification about (source, service) is 'offered' EXACTLY when that offer is stored and the listener is registered for it, and 'offered' / 'stopped' strictly alternate; a StopOffer removes the stored offer watched or not (fix F17). Also: Coq theorems about the abstract per-(listener,service,source) history specification that judges every trace (alternation for EVERY input history, reboot's stopped before the same message's offered, removal once, expiry on time). That the stored offers are those the inputs prescribe instant by instant is not proved (known finding F18 lives there); it is checked on every run: complete model-vs-implementation traces and call histories over timed histories incl. same-iteration coincidences and re-registration, implementation traces judged by the extracted check_C05 (static registrations: whole history; any registrations: last notification vs. most recent offer).",
    design="6 (C05)", technique="Coq proof by invariant over whole runs of the executable loop model + abstract history specification + exact trace correspondence on a virtual-time asyncio loop + extracted checker", note=STACK_NOTE)
CHECKS["C06"] = dict(
    text="Coq theorem over WHOLE RUNS of the full stack model (every scenario and schedule, invariant kept by every callback / loop step / run): the server listeners' notifications are a truthful, strictly alternating history - latest notification 'subscribed, accepted' exactly when the subscription is stored; 'subscribed' only for a subscription that is not live, 'unsubscribed' only for one that is; a rejected subscription is neither recorded nor reported gone. Also: Coq theorems about the abstract per-(instance,subscriber,subscription) history specification (alternation for every input history, rejected never recorded or reported, reboot before the same message's Subscribe, TTL restarted by refresh) and about handle_subscribe (listener consulted before recording, exactly one queue_send). End-to-end refinement not proved; checked on every run by exact trace correspondence and check_C06 (incl. positive-Ack-implies-recorded).",
    design="6 (C06)", technique="Coq proof over the abstract history specification + function-level theorems + exact trace correspondence + extracted checker", note=STACK_NOTE)
CHECKS["C09"] = dict(
    text="The model's TimedStore operations (refresh, stop, _expired, the loop body of stop_all_for_address) are proved equal to the control flow translated from the source text of sd.py on every run (gen_ts_* in Generated/LogicGen.v, Proofs/GenSkel.v). Coq theorem over WHOLE RUNS of the full stack model (every scenario and schedule; ghost history of (re)storings with their TTL and of expiries; invariant kept by every callback / loop step / run): every expiry happened exactly TTL seconds after the LATEST refresh of that entry, never for the infinite TTL; every stored entry with a timer has it due exactly TTL after its latest refresh; with the ownership invariants: exactly once, no stale timer. Also: Coq theorems: (A) the TimedStore algorithm as an abstract machine keeps 'live expiry timers <-> stored entries with a timer, one to one' for EVERY sequence of refresh/stop/remove-where/firing (no stale timer, infinite TTL owns none, removed entry has none); (B) the history specification expires exactly once exactly at t0+ttl, never earlier, is postponed/cancelled by a refresh, silent after removal. (C) refinement of the loop model not proved; checked on every run (both stores, deadlines +-1 tick, same-iteration coincidences both orders).",
    design="6 (C09)", technique="Coq proof by invariant over all operation sequences (abstract TimedStore machine) + specification theorems + exact trace correspondence + extracted checker", note=STACK_NOTE)
CHECKS["C15"] = dict(
    text="Coq theorems over WHOLE RUNS of the full stack model, every scenario and schedule (ghost history, invariant kept by every callback / loop step / run): per destination handed over ++ pending = queued; a collector timeout runs at most once; every pending timeout within [now, now+timeout]; a completed run leaves no overdue collector. Also for EVERY sequence of queue requests and collector firings (abstract machine mirroring queue_send/collector_timeout): per destination transmitted ++ pending = queued (no loss, duplication, reordering, mixing); case-by-case theorems of the model functions (zero timeout immediate, append, new collector with one timer at now+timeout, timeout sends exactly the collected entries). Deadline clause through the loop checked on every run (check_C15).",
    design="6 (C15)", technique="Coq proof by invariant over all operation sequences (collector machine) + function-level theorems + exact trace correspondence + extracted checker", note=STACK_NOTE)
CHECKS["C08"] = dict(
    text="Coq theorems: over whole runs of the full stack model (every scenario and schedule) the (flag, id) pairs given to the SD transmissions are the specification's (ghost history written by send_sd); for every interleaving of destinations the k-th id for a destination is ((k-1) mod 65535)+1 with the reboot flag iff k <= 65535 (alist invariant, lia over mod); never 0, no gap, no repeat; send_sd with no entries changes nothing, otherwise takes exactly one id which is the SOME/IP session id / SD reboot flag of the datagram. Correspondence walks a destination across the wrap through real send_sd (every datagram decoded) and _notify_single.",
    design="6 (C08)", technique="Coq proof by induction over the send history with an alist invariant + differential correspondence across the wrap-around", note=STACK_NOTE)
CHECKS["C10"] = dict(
    text="Coq theorems on the offer task state machine of the model for every world (initial delay inside the window, first offer then readiness, repetition delays base*2^i, cyclic period or end, offer content, cancelled before first offer sends nothing, cancelled later exactly one StopOffer if cyclic, pending find answers dropped once stopped, announcer.stop idempotent). Composed schedule and global silence over all schedules not proved; judged on every run by check_C10 on implementation traces + exact trace correspondence. Known finding F11.",
    design="6 (C10)", technique="Coq proof of the task state machine transitions + exact trace correspondence on a virtual-time loop + extracted checker", note=STACK_NOTE)
CHECKS["C11"] = dict(
    text="Coq theorems for every world: the Ack echoes ids/counter (bit-field lemma), no match => exactly one Nack to the sender, a running matching instance => exactly one queue_send of Ack (requested TTL) or Nack (rejected) after consulting the listener, other instances untouched, StopSubscribe handled by the store alone, multicast Subscribes change nothing. End-to-end over the loop checked on every run (check_C11).",
    design="6 (C11)", technique="Coq proof by case analysis of the decision chain + bit-field lemmas + exact trace correspondence + extracted checker", note=STACK_NOTE)
CHECKS["C12"] = dict(
    text="Coq theorems for every world: who answers (ready and matching, iff), unicast => call_soon (no timer), multicast => one timer per instance at a delay inside the window, nobody else, answer content = configured offer to the requester, not-ready instances silent. End-to-end over the loop checked on every run (check_C12).",
    design="6 (C12)", technique="Coq proof by unfolding/case analysis of handle_findservice + exact trace correspondence + extracted checker", note=STACK_NOTE)
CHECKS["C13"] = dict(
    text="Coq theorems for every world: round content = find entries of exactly the watched filters without a matching stored offer, wildcards and find TTL preserved, no further round after REPETITIONS_MAX, task ends as soon as nothing is unfound. Round schedule over the loop checked on every run (check_C13, liveness from the abstract TTL-store specification).",
    design="6 (C13)", technique="Coq proof of the find task transitions, the find coroutine translated from the source (gen_find_task) + exact trace correspondence + extracted checker", note=STACK_NOTE)
CHECKS["C14"] = dict(
    text="Coq theorem over WHOLE RUNS of the stack model (Proofs/WorldMirror.v, invariant kept by the callback of every handle, every loop step and run): for every scenario of subscribe / stop-subscribe / start / stop calls of the subscriber at arbitrary times (also deferred into an instant), every tie order, refresh configuration and fuel, and inside the property's domain (no subscribe for ids already requested from the same server: ghost event GDupSub), a server that applies the Subscribe / StopSubscribe entries it was sent in the order sent holds in every idle state exactly the eventgroups requested from it while the subscriber runs and none after it was stopped; in every other state the difference is exactly what the pending callbacks will send (symbolic execution of the ready queue). Plus Coq theorems for every world: Subscribe message/entry content (ids, TTL, counter 0, one endpoint option from the local sockname and protocol). Not proved: the refresh bound in time, and the mirror statement with the other components' traffic interleaved; both judged on every run by check_C14 on implementation traces + exact trace correspondence.",
    design="6 (C14)", technique="Coq proof by invariant over whole runs (symbolic execution of pending callbacks) + exact trace correspondence on a virtual-time loop + extracted checker (ideal-server fold)", note=STACK_NOTE)

CHECKS["C17"] = dict(
    text="Coq theorems over the model of SimpleEventgroup / SimpleService.client_subscribed (Model/ServiceStack.v, its own event-loop model) for every world, value map and schedule: what one _notify_single transmits decodes with the C01 datagram decoder into exactly one NOTIFICATION per requested event with service id, 0x8000|event, client 0, interface version = major version, E_OK, the current value and the destination's next session ids (C08 cycle); refusal of unknown eventgroup / not exactly one endpoint changes nothing; the subscriber data is a counter of live subscriptions per endpoint (subscribe +1, unsubscribe -1, addressed iff count >= 1, once each) as an invariant of EVERY callback and every reachable state of the loop model; a round creates one child per addressed endpoint and nothing without subscribers. Not proved: the timed end-to-end statement (which round happens when); judged on every run by the extracted check_C17 on implementation traces + complete-trace correspondence incl. a session-id wrap through _notify_single. Found and fixed F14.",
    design="6 (C17)", technique="Coq proof (invariant over every callback of the loop model, codec round trip reuse from C01, session cycle from C08) + exact trace correspondence on a virtual-time loop + extracted checker",
    note=COMMON_NOTE + " Loop-level: asyncio tasks, gather, Event and getaddrinfo are MODELLED (hop rules calibrated against CPython 3.12 under the virtual-time loop); the model never runs late.")

CHECKS["C04"] = dict(
    text="Composed model (Model/System.v): two stack models, each on its own loop model, and a network with an oracle-driven fault window, graceful stop/start, crash, restart. Coq theorems (interface lemmas of the composition, every state): crashed node silent, restarted node fresh, its first message carries (reboot flag, id 1) and is detected by every peer that heard from it before and by nobody else, network reliable / in order / constant latency outside the fault window, latency >= 1 tick; component guarantees from C05-C11, C14. NOT proved: the convergence statement over the composed model. It is decided on every run by executing the composed model and TWO REAL STACKS on two virtual-time loops over the same scenarios (both complete traces compared event by event) and judging the implementation traces with the extracted check_C04 (truth from the control events alone; views after last disturbance + TTL + period must equal the truth and stay). Over every run of the composition (any stop / start / crash / restart sequence, any fault pattern) BOTH stacks satisfy in every state the ownership invariant, the history invariant (C15 conservation, C08 session ids, wire = history) and the truthful alternating listener histories of C06 and C05 (Proofs/SystemInv.v, SystemWhole.v); the per-entry dispatch of sd_message_received is the control flow translated from the source on every run. The convergence domain (Spec/C04Spec.v in_domain) covers finite TTLs longer than the periods with cyclic offers, and infinite TTLs with cyclic OR non-cyclic offerers when nobody is left crashed at the end; known findings F16, F20, F21 (narrow patterns).",
    design="6 (C04)", technique="Coq interface lemmas of the two-stack composition + executable composed model with exact two-stack trace correspondence on virtual-time loops + extracted convergence checker",
    note=STACK_NOTE + " For C04 the claim rests mainly on the co-simulation (exploration strength for the convergence statement itself); crash = the world is discarded, restart = fresh world; real-time lateness and real sockets are outside the model.")

NOT_YET = {}


def main():
    props = [json.loads(l) for l in open(os.path.join(VERIF, "properties.jsonl"))]
    checks = []
    na = []
    for p in props:
        pid = p["id"]
        if pid in CHECKS:
            c = CHECKS[pid]
            checks.append(dict(
                property_id=pid,
                quick_cmd=f"./check {pid} --tier quick",
                thorough_cmd=f"./check {pid} --tier thorough",
                evidence_file=f"/verif/evidence/{pid}.json",
                replay_cmd_template="./check --replay {path}",
                engine="coq-model",
                level_claimed=dict(category="proof", text=c["text"], design_ref=c["design"]),
                level_note=c["note"],
                technique=c["technique"],
            ))
        else:
            na.append(dict(property_id=pid, reason=NOT_YET.get(pid, "not claimed yet: the model/theorems/correspondence for this property are still being built (work in progress, see DESIGN.md section 11); it is applicable")))
    m = dict(
        version=1,
        setup_cmd="make -C /verif setup",
        hooks=dict(guard="PYSOMEIP_VERIF", enable="no hooks are needed: every observation point is a public boundary owned by the harness (transport, listeners, event loop, random.uniform, getaddrinfo)",
                   baseline_off_cmd="cd /repo && /venv/bin/python -m pytest -ra -q -p no:cacheprovider --timeout=900 --continue-on-collection-errors",
                   source_commits=[], add_only=True),
        engines=[dict(name="coq-model", path="/verif/theories", serves_properties=sorted(CHECKS),
                      kind_free_text="Coq 8.16.1 development (model + theorems), extracted OCaml runner, Python correspondence harness on a virtual-time asyncio loop")],
        checks=checks,
        notes="See DESIGN.md. ./check <id> regenerates Generated/Consts.v from /repo/src, rebuilds the Coq development, re-checks Properties/<id>.v with the assumptions gate, then runs the correspondence and the extracted property checkers on implementation traces.",
        not_applicable=na,
    )
    with open(os.path.join(VERIF, "MANIFEST.json"), "w") as f:
        json.dump(m, f, indent=1)
    print("MANIFEST.json written:", len(checks), "checks,", len(na), "not claimed")


if __name__ == "__main__":
    main()
