"""Generators of structured (mostly valid, boundary-biased) codec inputs and of the malformed
stream.  Every random choice comes from the Random instance passed in."""
import ipaddress

import someip.header as H

IDS16 = [0, 1, 0x7FFF, 0x8000, 0xFFFE, 0xFFFF]
PAYLOAD_LENS = [0, 1, 2, 7, 8, 9, 15, 16, 17, 255, 256, 4095, 4096]
BIG_LENS = [65527, 65528, 65535, 65536, 65537]
MSG_TYPES = list(H.SOMEIPMessageType)
RET_CODES = list(H.SOMEIPReturnCode)


def id16(r):
    return r.choice(IDS16) if r.random() < 0.5 else r.getrandbits(16)


def payload(r, big=False, maxlen=4096):
    c = r.random()
    if big and c < 0.08:
        n = r.choice(BIG_LENS)
    elif c < 0.55:
        n = r.choice([x for x in PAYLOAD_LENS if x <= maxlen])
    else:
        n = r.randint(0, min(64, maxlen))
    if n == 0:
        return b""
    if r.random() < 0.5:
        return bytes([r.getrandbits(8)]) * n
    return r.randbytes(n)


# message ids with a meaning of their own in the SOME/IP world: the TCP magic cookies (service 0xFFFF, method 0x0000 /
# 0x8000, empty payload), the SD id, the event bit - a message using them is still just a message
SPECIAL_IDS = [(0xFFFF, 0x0000), (0xFFFF, 0x8000), (0xFFFF, 0x8100), (0xFFFF, 0xFFFF), (0x0000, 0x0000), (0xFFFE, 0x8000)]


def message(r, big=False, maxlen=4096):
    if r.random() < 0.08:
        sid, mid = r.choice(SPECIAL_IDS)
        return H.SOMEIPHeader(service_id=sid, method_id=mid, client_id=r.choice([0xDEAD, 0, id16(r)]), session_id=r.choice([0xBEEF, 0, id16(r)]),
                              interface_version=r.choice([1, 0, 0xFF]), message_type=r.choice(MSG_TYPES), return_code=r.choice(RET_CODES),
                              payload=b"" if r.random() < 0.7 else payload(r, big, maxlen))
    return H.SOMEIPHeader(
        service_id=id16(r),
        method_id=id16(r),
        client_id=id16(r),
        session_id=id16(r),
        interface_version=r.choice([0, 1, 0x7F, 0xFF, r.getrandbits(8)]),
        message_type=r.choice(MSG_TYPES),
        return_code=r.choice(RET_CODES),
        payload=payload(r, big, maxlen),
    )


def suffix(r):
    c = r.random()
    if c < 0.4:
        return b""
    if c < 0.6:
        return r.randbytes(r.choice([1, 2, 7, 8, 15, 16, 17]))
    if c < 0.8:
        return message(r, maxlen=16).build()  # a suffix that is itself a valid message
    b = bytearray(message(r, maxlen=16).build())
    b[r.choice([4, 5, 6, 7, 12, 14, 15])] ^= 1 << r.randrange(8)  # ... or an invalid one
    return bytes(b)


# ---------------------------------------------------------------- SD options / entries

V4 = [ipaddress.IPv4Address(x) for x in ("10.0.0.1", "10.0.0.2", "224.224.224.245", "0.0.0.0", "255.255.255.255")]
V6 = [ipaddress.IPv6Address(x) for x in ("2001:db8::1", "2001:db8::2", "ff02::1", "::")]
ASCII = "abcXYZ019-_. /"


def cfg_str(r, maxlen, allow_eq=False, nonempty=False):
    n = r.choice([0, 1, 2, 3, 8]) if r.random() < 0.9 else r.randint(0, maxlen)
    n = min(n, maxlen)
    if nonempty:
        n = max(1, n)
    alphabet = ASCII + ("=" if allow_eq else "")
    return "".join(r.choice(alphabet) for _ in range(n))


def config_option(r):
    items = []
    for _ in range(r.choice([0, 1, 1, 2, 3])):
        k = cfg_str(r, 100, nonempty=True)
        c = r.random()
        if c < 0.35:
            items.append((k, None))
        elif c < 0.5:
            items.append((k, ""))
        else:
            items.append((k, cfg_str(r, 254 - len(k), allow_eq=True)))
    if r.random() < 0.03:
        k = "k" * r.choice([254, 255])
        items.append((k, None))
    return H.SOMEIPSDConfigOption(configs=tuple(items))


def ip_option(r):
    cls = r.choice([H.IPv4EndpointOption, H.IPv4MulticastOption, H.IPv4SDEndpointOption,
                    H.IPv6EndpointOption, H.IPv6MulticastOption, H.IPv6SDEndpointOption])
    addr = r.choice(V6 if cls._family.name == "AF_INET6" else V4)
    c = r.random()
    proto = H.L4Protocols.UDP if c < 0.4 else H.L4Protocols.TCP if c < 0.7 else r.choice([0, 1, 5, 7, 16, 18, 255])
    return cls(address=addr, l4proto=proto, port=r.choice([0, 1, 30490, 30501, 0xFFFF]))


REGISTERED = sorted(H.SOMEIPSDOption._options)


def unknown_option(r):
    ty = r.choice([t for t in (0x00, 0x03, 0x05, 0x07, 0x10, 0x77, 0xFE, 0xFF) if t not in REGISTERED])
    return H.SOMEIPSDUnknownOption(type=ty, payload=r.randbytes(r.choice([0, 1, 2, 5, 9, 21])))


def option(r):
    c = r.random()
    if c < 0.45:
        return ip_option(r)
    if c < 0.65:
        return config_option(r)
    if c < 0.8:
        return H.SOMEIPSDLoadBalancingOption(priority=r.choice([0, 1, 0xFFFF, r.getrandbits(16)]), weight=r.choice([0, 1, 0xFFFF]))
    return unknown_option(r)


def option_pool(r, n):
    pool = []
    seen = set()
    tries = 0
    while len(pool) < n and tries < 20 * n + 50:
        tries += 1
        o = option(r)
        if len(pool) >= 12 and n > 20:
            # many distinct options cheaply: vary the port
            o = H.IPv4EndpointOption(address=V4[0], l4proto=H.L4Protocols.UDP, port=len(pool))
        if o not in seen:
            seen.add(o)
            pool.append(o)
    return pool


ENTRY_TYPES = list(H.SOMEIPSDEntryType)


def run_of(r, pool, maxlen=17):
    c = r.random()
    if c < 0.3:
        n = 0
    elif c < 0.7:
        n = r.randint(1, 3)
    elif c < 0.9:
        n = r.randint(4, 15)
    else:
        n = r.choice([15, 16, 17])
    n = min(n, maxlen)
    if not pool or n == 0:
        return ()
    if r.random() < 0.6:
        # a contiguous window of the pool: produces shared / overlapping / partially overlapping runs
        start = r.randrange(len(pool))
        return tuple(pool[(start + i) % len(pool)] for i in range(n))
    return tuple(r.choice(pool) for _ in range(n))


def entry(r, pool, maxrun=17):
    ty = r.choice(ENTRY_TYPES)
    if ty in (H.SOMEIPSDEntryType.Subscribe, H.SOMEIPSDEntryType.SubscribeAck):
        val = (r.choice([0, 1, 15]) << 16) | id16(r)
    else:
        val = r.choice([0, 1, 0xFFFFFFFE, 0xFFFFFFFF, r.getrandbits(32)])
    return H.SOMEIPSDEntry(
        sd_type=ty,
        service_id=id16(r),
        instance_id=id16(r),
        major_version=r.choice([0, 1, 0xFE, 0xFF]),
        ttl=r.choice([0, 1, 3, 0xFFFF, 0x10000, 0xFFFFFE, 0xFFFFFF]),
        minver_or_counter=val,
        options_1=run_of(r, pool, maxrun),
        options_2=run_of(r, pool, maxrun),
    )


def sd_header(r, nentries=None, npool=None, maxrun=17):
    if npool is None:
        c = r.random()
        npool = r.randint(0, 4) if c < 0.5 else r.randint(5, 20) if c < 0.9 else r.choice([100, 255, 256, 300])
    pool = option_pool(r, npool)
    if nentries is None:
        nentries = r.choice([0, 1, 1, 2, 3, 5, 20])
    if npool >= 100:
        # force many distinct options into the message: consecutive windows of the pool
        es = []
        for i in range(0, npool, 15):
            win = tuple(pool[i:i + 15])
            es.append(H.SOMEIPSDEntry(H.SOMEIPSDEntryType.OfferService, 1, i // 15, 1, 3, 0, options_1=win, options_2=run_of(r, pool, 3)))
        entries = es
    else:
        entries = [entry(r, pool, maxrun) for _ in range(nentries)]
    return H.SOMEIPSDHeader(
        entries=tuple(entries),
        flag_reboot=r.random() < 0.5,
        flag_unicast=r.random() < 0.8,
        flags_unknown=r.choice([0, 0, 0, 1, 0x20, 0x3F, r.getrandbits(6)]),
    )


def sd_message_bytes(r, hdr=None, session=None):
    """A complete SOME/IP-SD datagram for the given (resolved) SD header."""
    if hdr is None:
        hdr = sd_header(r, maxrun=15)
    payload = hdr.assign_option_indexes().build()
    m = H.SOMEIPHeader(
        service_id=H.SD_SERVICE, method_id=H.SD_METHOD, client_id=0,
        session_id=session if session is not None else r.randint(1, 0xFFFF),
        interface_version=1, message_type=H.SOMEIPMessageType.NOTIFICATION, payload=bytes(payload))
    return m.build()


# ---------------------------------------------------------------- malformed stream

def mutate(r, b: bytes, fields=()):
    """One random corruption of b.  fields: list of (offset, width) of length/count/index fields."""
    b = bytearray(b)
    n = len(b)
    c = r.random()
    if fields and c < 0.3:
        off, w = r.choice(fields)
        if off + w <= n:
            cur = int.from_bytes(b[off:off + w], "big")
            mx = (1 << (8 * w)) - 1
            v = r.choice([0, 1, mx - 1, mx, max(0, cur - 1), min(mx, cur + 1), r.randint(0, mx)])
            b[off:off + w] = v.to_bytes(w, "big")
            return bytes(b), "field"
    if n == 0:
        return r.randbytes(r.randint(1, 8)), "insert"
    if c < 0.5:
        i = r.randrange(n)
        b[i] ^= 1 << r.randrange(8)
        return bytes(b), "bitflip"
    if c < 0.62:
        i = r.randrange(n)
        b[i] = r.choice([0, 0x7F, 0x80, 0xFF, r.getrandbits(8)])
        return bytes(b), "byte"
    if c < 0.77:
        return bytes(b[: r.randrange(n)]), "truncate"
    if c < 0.87:
        i = r.randrange(n + 1)
        return bytes(b[:i] + r.randbytes(r.randint(1, 4)) + b[i:]), "insert"
    if c < 0.95:
        i = r.randrange(n)
        j = min(n, i + r.randint(1, 24))
        return bytes(b[:j] + b[i:j] + b[j:]), "duplicate"
    i = r.randrange(n)
    return bytes(b[:i] + b[i + 1:]), "delete"


def sd_fields(buf: bytes):
    """Offsets of the length/count/index fields of an SD payload (best effort, for mutate)."""
    f = [(4, 4)]
    if len(buf) >= 8:
        el = int.from_bytes(buf[4:8], "big")
        for off in range(8, min(8 + el, len(buf)), 16):
            f += [(off + 1, 1), (off + 2, 1), (off + 3, 1), (off, 1), (off + 9, 1)]
        o = 8 + el
        f.append((o, 4))
        p = o + 4
        while p + 3 <= len(buf):
            f += [(p, 2), (p + 2, 1)]
            ln = int.from_bytes(buf[p:p + 2], "big")
            if buf[p + 2] == 1 and p + 4 < len(buf):
                f.append((p + 4, 1))
            p += 3 + ln
    return f


def valid_sd_payload(r, maxrun=15):
    """bytes of an encodable SD payload (retries when the random message is not representable)"""
    while True:
        try:
            return bytes(sd_header(r, maxrun=maxrun).assign_option_indexes().build())
        except Exception:  # noqa: BLE001 - unrepresentable draw
            continue
