(* Reads "<op> <sexp>" lines on stdin, prints one s-expression per line on stdout.
   All decoding/encoding of arguments happens inside the extracted Gallina code
   (Model.dispatch); this file only parses and prints the textual s-expressions. *)
open Model

let rec pos_of_int (i : int) : positive =
  if i = 1 then XH
  else if i land 1 = 1 then XI (pos_of_int (i lsr 1))
  else XO (pos_of_int (i lsr 1))

let n_of_int (i : int) : n = if i = 0 then N0 else Npos (pos_of_int i)

let rec int_of_pos (p : positive) : int =
  match p with XH -> 1 | XO q -> 2 * int_of_pos q | XI q -> 2 * int_of_pos q + 1

let int_of_n (x : n) : int = match x with N0 -> 0 | Npos p -> int_of_pos p

exception Syntax of string

let hexval c =
  match c with
  | '0' .. '9' -> Char.code c - 48
  | 'a' .. 'f' -> Char.code c - 87
  | 'A' .. 'F' -> Char.code c - 55
  | _ -> raise (Syntax "hex")

let parse (s : string) (start : int) : sexp * int =
  let len = String.length s in
  let rec skip i = if i < len && s.[i] = ' ' then skip (i + 1) else i in
  let rec item i =
    let i = skip i in
    if i >= len then raise (Syntax "eof")
    else
      match s.[i] with
      | '(' ->
          let rec items acc j =
            let j = skip j in
            if j >= len then raise (Syntax "unclosed")
            else if s.[j] = ')' then (L (List.rev acc), j + 1)
            else
              let x, j' = item j in
              items (x :: acc) j'
          in
          items [] (i + 1)
      | '#' ->
          let rec bytes acc j =
            if j + 1 < len && s.[j] <> ' ' && s.[j] <> ')' then
              bytes (n_of_int ((hexval s.[j] * 16) + hexval s.[j + 1]) :: acc) (j + 2)
            else (B (List.rev acc), j)
          in
          bytes [] (i + 1)
      | '0' .. '9' ->
          let rec num acc j =
            if j < len && s.[j] >= '0' && s.[j] <= '9' then
              num ((acc * 10) + (Char.code s.[j] - 48)) (j + 1)
            else (A (n_of_int acc), j)
          in
          num 0 i
      | _ -> raise (Syntax "char")
  in
  item start

let rec print (b : Buffer.t) (x : sexp) : unit =
  match x with
  | A v -> Buffer.add_string b (string_of_int (int_of_n v))
  | B l ->
      Buffer.add_char b '#';
      List.iter (fun v -> Buffer.add_string b (Printf.sprintf "%02x" (int_of_n v))) l
  | L l ->
      Buffer.add_char b '(';
      List.iteri
        (fun i y ->
          if i > 0 then Buffer.add_char b ' ';
          print b y)
        l;
      Buffer.add_char b ')'

let () =
  let buf = Buffer.create 65536 in
  try
    while true do
      let line = input_line stdin in
      Buffer.clear buf;
      (try
         let op, i = parse line 0 in
         let arg, _ = parse line i in
         match op with
         | A o -> print buf (dispatch o arg)
         | _ -> Buffer.add_string buf "SYNTAX"
       with
      | Syntax m -> Buffer.add_string buf ("SYNTAX " ^ m)
      | Stack_overflow -> Buffer.add_string buf "STACKOVERFLOW");
      print_string (Buffer.contents buf);
      print_newline ()
    done
  with End_of_file -> ()
