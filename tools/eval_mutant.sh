#!/bin/bash
# usage: eval_mutant.sh <seed-name> <patch-file> <demo-file> <check ids...>
# Copies patch+demo to seeded/<seed-name>/, confirms the demo (passes on /repo, fails with the patch), applies the patch to /repo,
# runs the given checks (full quick commands) and ALWAYS reverts /repo.  Prints one summary line per check.
set -u
name=$1; patch=$2; demo=$3; shift 3
d=/verif/seeded/$name
mkdir -p $d
cp $patch $d/patch.diff
cp $demo $d/ 2>/dev/null
demo_b=$(basename $demo)
if ! git -C /repo diff --quiet; then echo "/repo is dirty, refusing"; exit 2; fi
r0=$(cd /tmp && PYTHONPATH=/repo/src timeout 120 /venv/bin/python -B $d/$demo_b >/dev/null 2>&1; echo $?)
git -C /repo apply $d/patch.diff || { echo "patch does not apply"; exit 2; }
trap 'git -C /repo checkout -- . ; cd /verif && make -s setup >/dev/null 2>&1' EXIT
r1=$(cd /tmp && PYTHONPATH=/repo/src timeout 120 /venv/bin/python -B $d/$demo_b >/dev/null 2>&1; echo $?)
echo "demo: original exit=$r0 mutated exit=$r1"
cd /verif
for c in "$@"; do
  out=$(./check $c --tier quick 2>&1 | grep -E "VIOLATION|KNOWN|^\[" | head -3 | tr '\n' ' ')
  echo "check $c: $out"
done
