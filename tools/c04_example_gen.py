import sys,random
sys.path.insert(0,'/verif')
from harness import sexp, syssim
from harness.props import c04
r=random.Random(11)
# offerer crashes after its first offer and restarts; small timings so that vm_compute stays fast
T=1<<20
def t(c): return (0,0,0,0,1,10*1024,T//2,3,2,2,T//2,c)
na=(1,t(0),[(1,c04.conv.s_service(c04.SVC),[])],[0]*4,[[17,1],[0]])
nb=(2,t(0),[],[0]*4,[[3,c04.conv.s_service(c04.EG.as_service()),[0,0]],[7,c04.conv.s_eg(c04.EG)],[0]])
events=[(0,False,(2,)),(0,True,(2,)),(5,False,(1,)),(T//8,False,(2,)),(T,True,(0,[1])),(T+T//8,True,(0,[0]))]
sc=(na,nb,events,[[],[1,1]],T//4,1,0,False,4000)
import json
# settle bound by the checker formula
t_last=T+T//8; ttl=3*T; period=T//2; rep=lambda c:c[1]+(1<<c[4])*c[5]; slack=2*rep(t(0))+0+0+4*2+16
sc=sc[:6]+(t_last+ttl+period+slack+T//4,)+sc[7:]
ta,tb,comp,fa,fb=syssim.run_impl(sc)
print(len(ta),len(tb),comp, file=sys.stderr)
print(sexp.to_coq(syssim.scenario_sexp(sc)))
