#!/bin/bash
# usage: eval_wt.sh <id> <worktree> [check ids...]   (default: all checks in MANIFEST.json)
# Runs the checks from a private copy of /verif against the given scratch worktree (PYSOMEIP_REPO), so /repo and /verif stay untouched.
set -u
id=$1; wt=$2; shift 2
ve=${MUTDIR:-/tmp/mut}/ve_$id
rm -rf $ve; mkdir -p $ve
rsync -a --exclude .git --exclude .work --exclude replays /verif/ $ve/
cd $ve
checks="$@"
if [ -z "$checks" ]; then checks=$(python3 -c "import json;print(' '.join(c['property_id'] for c in json.load(open('MANIFEST.json'))['checks']))"); fi
r0=$(cd /tmp && PYTHONPATH=/repo/src timeout 200 /venv/bin/python -B $wt/demo_*.py >/dev/null 2>&1; echo $?)
r1=$(cd /tmp && PYTHONPATH=$wt/src timeout 200 /venv/bin/python -B $wt/demo_*.py >/dev/null 2>&1; echo $?)
echo "demo: on /repo exit=$r0, on worktree exit=$r1"
for c in $checks; do
  out=$(PYSOMEIP_REPO=$wt ./check $c --tier quick 2>&1 | grep -E "VIOLATION|^\[" | head -4 | tr '\n' ' ')
  echo "check $c: $out"
done
mkdir -p ${MUTDIR:-/tmp/mut}/replays_$id; cp -r $ve/replays/* ${MUTDIR:-/tmp/mut}/replays_$id/ 2>/dev/null
rm -rf $ve
echo DONE
