#!/usr/bin/env python3
"""Boilerplate generator: a Coq Record plus one `set_<field>` function per field.
Usage: gen_record.py Name mkName 'f1:T1' 'f2:T2' ...   (prints Coq text)"""
import sys

name, ctor = sys.argv[1], sys.argv[2]
fields = [a.split(":", 1) for a in sys.argv[3:]]
print(f"Record {name} := {ctor} {{")
print(";\n".join(f"  {f} : {t}" for f, t in fields))
print("}.")
for i, (f, t) in enumerate(fields):
    args = " ".join(f"(v)" if j == i else f"({g} w)" for j, (g, _) in enumerate(fields))
    print(f"Definition set_{f} (v : {t}) (w : {name}) : {name} := {ctor} {args}.")
