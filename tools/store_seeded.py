#!/usr/bin/env python3
"""Stores the confirmed seeded changes under /verif/seeded/<name>/ (patch.diff, demo, meta.json)."""
import json, os, re, shutil, subprocess, sys
M = "/tmp/mut"
INFO = {
 "C01": ("C01-strip-zero-padding", "datagram loop strips leading zero bytes after each message: a datagram with >= 2 messages whose non-first message has a service id < 0x0100 loses that message and the rest", "multi-message datagram + boundary value of the service id"),
 "C02": ("C02-find-skips-first-element", "_find compares only the last n-1 elements of a run (range(1, n-1)): two entries whose 2+-option runs differ only in the first option share indexes; the second decodes with the first's option", "two entries with runs (epA,cfg) and (epB,cfg) in one message"),
 "C03": ("C03-loadbalancing-lenient-length", "load balancing option accepts length > 5 but unpacks buf[1:]: struct.error escapes decoders and datagram_received", "well-formed SD message whose load balancing option has length > 5 with the bytes really present"),
 "C04": ("C04-reboot-needs-strictly-smaller-id", "reboot detection uses old > new instead of old >= new: a peer that crashed after exactly one message per channel and restarts (first message repeats session id 1 with the flag set) is not detected; with infinite subscription TTL the restarted offerer never learns the subscription", "crash point after exactly one multicast message + restart + infinite TTL, lossless network"),
 "C05": ("C05-stop-all-keeps-timers", "stop_all_for_address no longer cancels the TTL timers; _expired pops by key: after reboot + re-offer with a later deadline the orphaned timer removes the live entry and reports stopped", "offer (finite TTL), reboot detected, re-offer with longer TTL, wait for the first deadline; two cooperating sites"),
 "C07": ("C07-no-store-on-detection", "check_received returns True before storing the new (flag, id): after a detected reboot every following flag-set message of that sender/channel is compared with the stale state and reports the reboot again", "multi-step history on one (sender, channel) key after a detection"),
 "C08": ("C08-global-reboot-flag", "the default entry of the outgoing table takes its flag from a storage-wide attribute that is cleared when ANY destination wraps: a destination first contacted after another one wrapped sends without the reboot flag", "65535 sends to one destination, then first contact of another destination; two cooperating sites"),
 "C09": ("C09-refresh-forever-keeps-timer", "refresh cancels the old timer only when the new TTL is finite: an entry refreshed with the infinite TTL is expired by the stale timer of its finite predecessor", "finite TTL, refresh with TTL_FOREVER before the deadline, wait"),
 "C10": ("C10-flag-cleared-only-when-task-done", "stop() leaves _can_answer_offers set while the offer task is still running: a FindService answer executed in the same loop iteration after stop() sends an Offer after the (non-cyclic) StopOffer", "non-cyclic instance, stop during the repetition phase, pending answer in the same loop iteration as stop()"),
 "C11": ("C11-done-task-means-stopped", "handle_subscribe treats a finished offer task as 'not offering': a non-cyclic instance in its main phase Nacks every Subscribe", "CYCLIC_OFFER_DELAY = 0, all repetitions over, then a unicast Subscribe"),
 "C13": ("C13-remaining-only-shrinks", "send_find_services keeps a shrinking list of unfound services: a service found at one round whose offer disappears before a later round is never searched for again", ">= 2 watched services, an offer known at round k and withdrawn/expired before round k+1 while another stays unfound"),
 "C14": ("C14-sync-stop-subscribe", "stop_subscribe_eventgroup sends its StopSubscribe synchronously while subscribe_eventgroup still defers its Subscribe: subscribe then stop in one loop iteration leaves the server subscribed", "subscribe + stop_subscribe of the same pair within one loop iteration; two cooperating sites"),
 "C15": ("C15-stop-supersedes-pending", "queue_send drops pending entries of the same (service, instance) when an entry with TTL 0 is queued - also SubscribeAcks: an Ack followed by a Nack for another eventgroup of the same instance in one collection window loses the Ack", "collection timeout > 0, Ack and Nack (or offer and stop) for one instance and destination within one window"),
 "C16": ("C16-no-error-for-fire-and-forget", "E_MALFORMED_MESSAGE is only sent for REQUEST: a malformed REQUEST_NO_RETURN gets no error reply", "REQUEST_NO_RETURN passing all checks whose handler raises MalformedMessageError"),
 "C17": ("C17-one-shot-event-generator", "notify_once passes a generator to _notify_all: the first _notify_single drains it, the other subscribers get nothing", "explicit round with >= 2 subscribed endpoints"),
 "C18": ("C18-read-instead-of-readexactly", "SOMEIPHeader.read uses reader.read(n) for the payload: a payload spanning two chunks is truncated", "a chunk boundary strictly inside a payload with the reader running in between"),
 "C19": ("C19-for-service-uses-matches-service", "Eventgroup.for_service uses the symmetric matches_service: an offered service carrying a wildcard where the filter is concrete is accepted", "offer with instance 0xFFFF / major 0xFF against a concrete eventgroup filter"),
 "C20": ("C20-empty-value-dropped", "SOMEIPSDConfigOption.build writes 'k' for ('k', ''): decode-encode-decode turns a present-but-empty value into an absent one", "received configuration item 'key=' (present, empty value)"),
}
tests = dict(re.findall(r"^(C\d\d): (.*)$", open(f"{M}/tests.log").read(), re.M))
for pid, (name, what, needs) in INFO.items():
    d = f"/verif/seeded/{name}"
    os.makedirs(d, exist_ok=True)
    shutil.copy(f"{M}/{pid}.diff", f"{d}/patch.diff")
    shutil.copy(f"{M}/wt_{pid}/demo_{pid}.py", f"{d}/demo_{pid}.py")
    log = open(f"{M}/eval_{pid}.log").read()
    demo = re.search(r"demo: on /repo exit=(\d+), on worktree exit=(\d+)", log)
    flagged = {}
    for m in re.finditer(r"^check (C\d\d): (.*)$", log, re.M):
        line = m.group(2)
        if "VIOLATION" in line:
            flagged[m.group(1)] = "no-failing-input-found (correspondence/proof broke)" if ("no-failing-input-found" in line and line.count("VIOLATION") == 1) else "concrete failing input"
    extra = json.load(open(f"{M}/manual_{pid}.json")) if os.path.exists(f"{M}/manual_{pid}.json") else {}
    flagged.update(extra)
    meta = dict(property=pid, breaks=what, needs_to_manifest=needs, origin="independent sub-agent given only the property text and a scratch worktree",
                confirmed=dict(demo_exit_on_repo=int(demo.group(1)), demo_exit_with_change=int(demo.group(2)), pytest_with_change=tests.get(pid, "not run"),
                               how="patch applied in a scratch worktree of /repo outside /repo and /verif; demo run with PYTHONPATH=<worktree>/src; full test suite run there; checks run from a private copy of /verif with PYSOMEIP_REPO=<worktree> (tools/eval_wt.sh) and, for the own property, from /verif itself"),
                checks_that_report_it=flagged, caught_by_own_property_check=pid in flagged)
    json.dump(meta, open(f"{d}/meta.json", "w"), indent=1)
    print(pid, name, sorted(flagged), tests.get(pid))
