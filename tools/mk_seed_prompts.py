#!/usr/bin/env python3
"""usage: mk_seed_prompts.py <scratch-dir> <property-id>...
For every property id: a scratch git worktree of /repo at <scratch-dir>/<id> and the assignment for an independent
sub-agent at <scratch-dir>/prompts/<id>.txt.  The assignment holds the text of that ONE property, the titles of the changes
already stored for it and nothing from /verif.  Worktrees are removed with `git -C /repo worktree remove --force`."""
import json, os, subprocess, sys
VERIF = os.path.dirname(os.path.dirname(os.path.abspath(__file__)))
base, pids = sys.argv[1], sys.argv[2:]
os.makedirs(base + "/prompts", exist_ok=True)
props = {json.loads(l)['id']: json.loads(l) for l in open(VERIF + '/properties.jsonl')}
tried = {}
for d in sorted(os.listdir(VERIF + '/seeded')):
    m = json.load(open(VERIF + '/seeded/%s/meta.json' % d))
    tried.setdefault(d[:3], []).append("%s: %s" % (d[4:], m['breaks'][:200]))
for pid in pids:
    wt = "%s/%s" % (base, pid)
    subprocess.check_call(["git", "-C", "/repo", "worktree", "add", "-q", "--detach", wt, "HEAD"])
    p = props[pid]
    txt = f"""You are helping to test a verification harness for the Python library pysomeip (pure-Python asyncio implementation of SOME/IP and SOME/IP Service Discovery). You have your OWN scratch git worktree of the library at {wt} (source under {wt}/src/someip, tests under {wt}/tests). Work ONLY inside {wt}; never touch /repo or /verif (do not even read /verif).

Here is ONE semantic property the library is supposed to satisfy:

ID: {pid}
Title: {p['title']}
Statement: {p['statement']}
Quantified over: {p['quantifier']['text']}
Why the existing tests cannot settle it: {p['why_tests_cant']}
Code anchors: {json.dumps(p['anchors'].get('mechanism', []))}

YOUR TASK: make ONE small, realistic change to the library source in {wt}/src/someip (the kind of change a maintainer could plausibly make in a refactoring, an optimisation, a "fix", a hardening or a clean-up - give it a plausible code comment) such that
  (1) the library still imports and the EXISTING test suite still passes unchanged:  cd {wt} && PYTHONPATH={wt}/src /venv/bin/python -m pytest -q -p no:cacheprovider --timeout=900   (must report 123 passed; do not edit tests; a test that is timing-flaky under load may be re-run alone),
  (2) the property above is now violated - but only for SPECIFIC inputs / schedules / histories inside the quantification above (something that needs a particular situation to manifest, not a change that breaks everything at once, and not something that needs an application callback to raise an exception),
  (3) it is DIFFERENT from these changes, which have already been tried for this property (several rounds - be inventive):
{chr(10).join('     - ' + t for t in tried.get(pid, []))}
      Look for a different mechanism, a different code path, or a different kind of situation: an unusual but legal timing configuration (zero delays, equal delays, very long or infinite TTLs), several instances / peers / listeners / eventgroups at once, entries of different kinds in one message, messages of several peers in one loop iteration, repeated or redundant API calls, restart sequences, IPv6 or TCP endpoints, boundary values of counters, lengths and ids, state that survives a stop / start, caches and memoisation, iteration over a container that changes, ordering of dictionary / set iteration, ...

Also write a self-contained demo script {wt}/demo_<short-name>.py that drives the REAL library code (no mocks of the code under test; use a virtual clock or short real sleeps; no network needed) through the specific situation and checks the property as stated: it must exit 0 and print OK on the unchanged library and exit 1 and print FAIL with the changed one. It is run as:  cd /tmp && PYTHONPATH=<tree>/src /venv/bin/python -B <demo>.  Check both: with PYTHONPATH=/repo/src (unchanged library; exit 0) and PYTHONPATH={wt}/src (exit 1).

Leave the change UNCOMMITTED in the worktree (only the source change and the demo file; nothing else new). Do not create other files outside {wt}. Finish with a short report: what you changed (file, function), why it breaks the property, what exactly is needed for it to manifest, the pytest result line, the two demo exit codes, and - if you notice that the UNCHANGED library already violates the property in some situation - say so precisely (that is valuable too)."""
    open('%s/prompts/%s.txt' % (base, pid), 'w').write(txt)
print('ok', len(pids))
