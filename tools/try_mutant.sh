#!/bin/bash
# usage: try_mutant.sh <seed-id> <worktree> <check ids...>   - stores the patch+demo under seeded/<seed-id>, applies it to /repo,
# runs the given checks (quick tier), and ALWAYS reverts /repo afterwards.
set -u
id=$1; wt=$2; shift 2
d=/verif/seeded/$id
mkdir -p $d
git -C $wt diff -- src > $d/patch.diff
cp $wt/demo_*.py $d/ 2>/dev/null
if ! git -C /repo diff --quiet; then echo "/repo is dirty, refusing"; exit 2; fi
git -C /repo apply $d/patch.diff || { echo "patch does not apply"; exit 2; }
trap 'git -C /repo checkout -- .' EXIT
cd /verif
for c in "$@"; do
  ./check $c --tier quick --no-build 2>&1 | grep -E "VIOLATION|KNOWN|^\[" | head -4
done
