#!/bin/bash
# usage: regress_seeded.sh [name-glob]   - for every seeded change: scratch worktree of /repo + patch, run the check of the property
# it targets from /verif (PYSOMEIP_REPO=<worktree>), remove the worktree.  Prints one line per change; exit 1 if one is not reported.
set -u
glob=${1:-*}
rc=0
mkdir -p /tmp/seedreg
for d in /verif/seeded/$glob/; do
  name=$(basename $d); pid=${name:0:3}
  wt=/tmp/seedreg/$name
  git -C /repo worktree add --detach $wt HEAD -f >/dev/null 2>&1
  if ! git -C $wt apply $d/patch.diff 2>/dev/null; then echo "$name: PATCH DOES NOT APPLY"; rc=1; git -C /repo worktree remove --force $wt; continue; fi
  out=$(cd /verif && PYSOMEIP_REPO=$wt ./check $pid --tier quick 2>&1 | grep -E "VIOLATION|^\[" | sed -E 's/replay=[^ ]*//' | head -2 | tr '\n' ' ')
  case "$out" in *VIOLATION*) v=reported;; *) v="NOT REPORTED"; rc=1;; esac
  case "$out" in *no-failing-input-found*) v="$v (no concrete input)";; esac
  echo "$name: $v"
  git -C /repo worktree remove --force $wt >/dev/null 2>&1
done
git -C /repo worktree prune
cd /verif && make -s setup >/dev/null 2>&1
exit $rc
